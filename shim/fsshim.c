// fsshim: LD_PRELOAD interposer for crash / fault / trace monitoring of one database directory.
//
//   FSSHIM_ROOT=<dir>      calls whose path (or fd) lies under <dir> are "in scope"
//   FSSHIM_TRACE=<file>    append one line per in-scope call (see emit())
//   FSSHIM_KILL_AT=<k>     _exit(137) INSTEAD OF performing the k-th in-scope mutating call
//   FSSHIM_FAIL_AT=<k>     the k-th in-scope mutating call returns -1/errno with no side effect
//   FSSHIM_ERRNO=<n>       errno for FAIL_AT (default EIO)
//
// In-scope mutating calls (write-intent opens, writes, truncates, syncs, renames, unlinks,
// mkdir/rmdir, links) get consecutive numbers from one atomic counter, exported through
// fsshim_counter() so that the driven program can stamp its own log with it.
//
// Trace line:  <n> <tid> <op> <ret> <errno> <detail...>      (n = 0 for non-mutating calls)
//   open   flags=<hex> <path>            (ret = fd)
//   write  fd=<fd> off=<offset> len=<n> <path> <hex data>
//   trunc  fd=<fd> len=<n> <path>
//   sync   fd=<fd> kind=<fsync|fdatasync> <path>
//   rename <from> <to> | unlink <path> | mkdir <path> | rmdir <path> | link <from> <to>
//   close  fd=<fd> <path> | flock fd=<fd> op=<n> <path>

#define _GNU_SOURCE
#include <dlfcn.h>
#include <errno.h>
#include <fcntl.h>
#include <limits.h>
#include <stdarg.h>
#include <stdatomic.h>
#include <stdio.h>
#include <stdlib.h>
#include <string.h>
#include <sys/file.h>
#include <sys/stat.h>
#include <sys/syscall.h>
#include <sys/types.h>
#include <sys/uio.h>
#include <unistd.h>

#define MAXFD 8192

static char g_root[PATH_MAX];
static size_t g_root_len = 0;
static int g_trace_fd = -1;
static long g_kill_at = -1, g_fail_at = -1;
static int g_fail_errno = EIO;
static atomic_long g_counter = 0;
static atomic_int g_ready = 0;

static char *g_fdpath[MAXFD]; // path of in-scope fds (NULL = out of scope / unknown)

static int (*real_open)(const char *, int, ...);
static int (*real_open64)(const char *, int, ...);
static int (*real_openat)(int, const char *, int, ...);
static int (*real_openat64)(int, const char *, int, ...);
static ssize_t (*real_write)(int, const void *, size_t);
static ssize_t (*real_pwrite)(int, const void *, size_t, off_t);
static ssize_t (*real_pwrite64)(int, const void *, size_t, off64_t);
static ssize_t (*real_writev)(int, const struct iovec *, int);
static int (*real_ftruncate)(int, off_t);
static int (*real_ftruncate64)(int, off64_t);
static int (*real_truncate)(const char *, off_t);
static int (*real_fsync)(int);
static int (*real_fdatasync)(int);
static int (*real_rename)(const char *, const char *);
static int (*real_renameat)(int, const char *, int, const char *);
static int (*real_renameat2)(int, const char *, int, const char *, unsigned int);
static int (*real_unlink)(const char *);
static int (*real_unlinkat)(int, const char *, int);
static int (*real_mkdir)(const char *, mode_t);
static int (*real_mkdirat)(int, const char *, mode_t);
static int (*real_rmdir)(const char *);
static int (*real_link)(const char *, const char *);
static int (*real_linkat)(int, const char *, int, const char *, int);
static int (*real_close)(int);
static int (*real_flock)(int, int);
static ssize_t (*real_copy_file_range)(int, off64_t *, int, off64_t *, size_t, unsigned int);
static int (*real_fallocate)(int, int, off_t, off_t);

#define LOAD(name) real_##name = dlsym(RTLD_NEXT, #name)

static void load_syms(void) {
  LOAD(open); LOAD(open64); LOAD(openat); LOAD(openat64); LOAD(write); LOAD(pwrite);
  LOAD(pwrite64); LOAD(writev); LOAD(ftruncate); LOAD(ftruncate64); LOAD(truncate);
  LOAD(fsync); LOAD(fdatasync); LOAD(rename); LOAD(renameat); LOAD(renameat2); LOAD(unlink);
  LOAD(unlinkat); LOAD(mkdir); LOAD(mkdirat); LOAD(rmdir); LOAD(link); LOAD(linkat);
  LOAD(close); LOAD(flock); LOAD(copy_file_range); LOAD(fallocate);
}
#define ENS if (__builtin_expect(!real_close, 0)) load_syms()

__attribute__((constructor)) static void fsshim_init(void) {
  load_syms();
  const char *r = getenv("FSSHIM_ROOT");
  if (r && *r) {
    strncpy(g_root, r, sizeof(g_root) - 1);
    g_root_len = strlen(g_root);
    while (g_root_len > 1 && g_root[g_root_len - 1] == '/') g_root[--g_root_len] = 0;
  }
  const char *t = getenv("FSSHIM_TRACE");
  if (t && *t) g_trace_fd = real_open(t, O_WRONLY | O_CREAT | O_APPEND | O_CLOEXEC, 0644);
  const char *k = getenv("FSSHIM_KILL_AT");
  if (k && *k) g_kill_at = atol(k);
  const char *f = getenv("FSSHIM_FAIL_AT");
  if (f && *f) g_fail_at = atol(f);
  const char *e = getenv("FSSHIM_ERRNO");
  if (e && *e) g_fail_errno = atoi(e);
  atomic_store(&g_ready, 1);
}

long fsshim_counter(void) { return atomic_load(&g_counter); }

static int in_scope_path(const char *p) {
  if (!g_root_len || !p) return 0;
  if (strncmp(p, g_root, g_root_len) != 0) return 0;
  return p[g_root_len] == 0 || p[g_root_len] == '/';
}

// Resolve (dirfd, path) to something comparable with the root. Relative paths with AT_FDCWD are
// taken relative to cwd; relative to a known in-scope dirfd are joined.
static const char *resolve(int dirfd, const char *path, char *buf) {
  if (!path) return NULL;
  if (path[0] == '/') return path;
  if (dirfd == AT_FDCWD) {
    if (!getcwd(buf, PATH_MAX)) return path;
    size_t n = strlen(buf);
    snprintf(buf + n, PATH_MAX - n, "/%s", path);
    return buf;
  }
  if (dirfd >= 0 && dirfd < MAXFD && g_fdpath[dirfd]) {
    snprintf(buf, PATH_MAX, "%s/%s", g_fdpath[dirfd], path);
    return buf;
  }
  char link[64];
  snprintf(link, sizeof link, "/proc/self/fd/%d", dirfd);
  ssize_t n = readlink(link, buf, PATH_MAX - 1);
  if (n <= 0) return path;
  buf[n] = 0;
  size_t l = strlen(buf);
  snprintf(buf + l, PATH_MAX - l, "/%s", path);
  return buf;
}

static const char *fd_path(int fd) {
  if (fd >= 0 && fd < MAXFD) return g_fdpath[fd];
  return NULL;
}

static void set_fd(int fd, const char *path) {
  if (fd < 0 || fd >= MAXFD) return;
  char *old = g_fdpath[fd];
  g_fdpath[fd] = path ? strdup(path) : NULL;
  if (old) free(old);
}

static void emit(long n, const char *op, long ret, int err, const char *fmt, ...) {
  if (g_trace_fd < 0) return;
  char head[PATH_MAX * 2 + 256];
  int len = snprintf(head, sizeof head, "%ld %ld %s %ld %d ", n, (long)syscall(SYS_gettid), op, ret, err);
  va_list ap;
  va_start(ap, fmt);
  len += vsnprintf(head + len, sizeof head - len - 2, fmt, ap);
  va_end(ap);
  if (len > (int)sizeof head - 2) len = sizeof head - 2;
  head[len++] = '\n';
  real_write(g_trace_fd, head, len);
}

static void emit_write(long n, long ret, int err, int fd, long off, const void *data, size_t dlen,
                       const char *path) {
  if (g_trace_fd < 0) return;
  size_t cap = 256 + strlen(path) + dlen * 2;
  char *buf = malloc(cap);
  if (!buf) return;
  int len = snprintf(buf, cap, "%ld %ld write %ld %d fd=%d off=%ld len=%zu %s ", n,
                     (long)syscall(SYS_gettid), ret, err, fd, off, dlen, path);
  static const char hx[] = "0123456789abcdef";
  const unsigned char *d = data;
  size_t shown = ret > 0 ? (size_t)ret : 0;
  for (size_t i = 0; i < shown; i++) {
    buf[len++] = hx[d[i] >> 4];
    buf[len++] = hx[d[i] & 15];
  }
  if (shown == 0) buf[len++] = '-';
  buf[len++] = '\n';
  real_write(g_trace_fd, buf, len);
  free(buf);
}

// Returns the call number; performs kill. *fail is set when the call must fail.
static long gate(int *fail) {
  long n = atomic_fetch_add(&g_counter, 1) + 1;
  *fail = 0;
  if (g_kill_at > 0 && n == g_kill_at) {
    emit(n, "KILLED", 0, 0, "-");
    _exit(137);
  }
  if (g_fail_at > 0 && n == g_fail_at) *fail = 1;
  return n;
}

static int write_intent(int flags) {
  int acc = flags & O_ACCMODE;
  return acc == O_WRONLY || acc == O_RDWR || (flags & (O_CREAT | O_TRUNC | O_APPEND)) != 0;
}

static int do_open(int which, int dirfd, const char *path, int flags, mode_t mode) {
  ENS;
  char buf[PATH_MAX];
  const char *abs = atomic_load(&g_ready) ? resolve(dirfd, path, buf) : NULL;
  int scope = abs && in_scope_path(abs);
  long n = 0;
  if (scope && write_intent(flags)) {
    int fail;
    n = gate(&fail);
    if (fail) {
      emit(n, "open", -1, g_fail_errno, "flags=%x %s FAILED-BY-SHIM", flags, abs);
      errno = g_fail_errno;
      return -1;
    }
  }
  int fd;
  switch (which) {
  case 0: fd = real_open(path, flags, mode); break;
  case 1: fd = real_open64(path, flags, mode); break;
  case 2: fd = real_openat(dirfd, path, flags, mode); break;
  default: fd = real_openat64(dirfd, path, flags, mode); break;
  }
  int e = errno;
  if (scope) {
    if (fd >= 0) set_fd(fd, abs);
    emit(n, "open", fd, fd < 0 ? e : 0, "flags=%x %s", flags, abs);
  } else if (fd >= 0 && fd < MAXFD && g_fdpath[fd]) {
    set_fd(fd, NULL);
  }
  errno = e;
  return fd;
}

#define MODE_ARG                                                                                   \
  mode_t mode = 0;                                                                                 \
  if ((flags & O_CREAT) || (flags & O_TMPFILE) == O_TMPFILE) {                                     \
    va_list ap;                                                                                    \
    va_start(ap, flags);                                                                           \
    mode = va_arg(ap, mode_t);                                                                     \
    va_end(ap);                                                                                    \
  }

int open(const char *path, int flags, ...) { MODE_ARG return do_open(0, AT_FDCWD, path, flags, mode); }
int open64(const char *path, int flags, ...) { MODE_ARG return do_open(1, AT_FDCWD, path, flags, mode); }
int openat(int dirfd, const char *path, int flags, ...) { MODE_ARG return do_open(2, dirfd, path, flags, mode); }
int openat64(int dirfd, const char *path, int flags, ...) { MODE_ARG return do_open(3, dirfd, path, flags, mode); }
int creat(const char *path, mode_t mode) { return do_open(0, AT_FDCWD, path, O_CREAT | O_WRONLY | O_TRUNC, mode); }
int creat64(const char *path, mode_t mode) { return do_open(1, AT_FDCWD, path, O_CREAT | O_WRONLY | O_TRUNC, mode); }

ssize_t write(int fd, const void *data, size_t len) {
  ENS;
  const char *p = fd_path(fd);
  if (!p) return real_write(fd, data, len);
  int fail;
  long n = gate(&fail);
  if (fail) {
    emit(n, "write", -1, g_fail_errno, "fd=%d off=-1 len=%zu %s FAILED-BY-SHIM", fd, len, p);
    errno = g_fail_errno;
    return -1;
  }
  ssize_t r = real_write(fd, data, len);
  int e = errno;
  long end = lseek(fd, 0, SEEK_CUR);
  emit_write(n, r, r < 0 ? e : 0, fd, r > 0 ? end - r : end, data, len, p);
  errno = e;
  return r;
}

static ssize_t do_pwrite(int which, int fd, const void *data, size_t len, off64_t off) {
  ENS;
  const char *p = fd_path(fd);
  if (!p) return which ? real_pwrite64(fd, data, len, off) : real_pwrite(fd, data, len, off);
  int fail;
  long n = gate(&fail);
  if (fail) {
    emit(n, "write", -1, g_fail_errno, "fd=%d off=%ld len=%zu %s FAILED-BY-SHIM", fd, (long)off, len, p);
    errno = g_fail_errno;
    return -1;
  }
  ssize_t r = which ? real_pwrite64(fd, data, len, off) : real_pwrite(fd, data, len, off);
  int e = errno;
  emit_write(n, r, r < 0 ? e : 0, fd, (long)off, data, len, p);
  errno = e;
  return r;
}
ssize_t pwrite(int fd, const void *d, size_t l, off_t o) { return do_pwrite(0, fd, d, l, o); }
ssize_t pwrite64(int fd, const void *d, size_t l, off64_t o) { return do_pwrite(1, fd, d, l, o); }

ssize_t writev(int fd, const struct iovec *iov, int cnt) {
  ENS;
  const char *p = fd_path(fd);
  if (!p) return real_writev(fd, iov, cnt);
  // flatten so that the trace carries the data; one call number
  size_t total = 0;
  for (int i = 0; i < cnt; i++) total += iov[i].iov_len;
  char *flat = malloc(total ? total : 1);
  size_t o = 0;
  for (int i = 0; i < cnt; i++) {
    memcpy(flat + o, iov[i].iov_base, iov[i].iov_len);
    o += iov[i].iov_len;
  }
  ssize_t r = write(fd, flat, total);
  int e = errno;
  free(flat);
  errno = e;
  return r;
}

static int do_ftruncate(int which, int fd, off64_t len) {
  ENS;
  const char *p = fd_path(fd);
  if (!p) return which ? real_ftruncate64(fd, len) : real_ftruncate(fd, len);
  int fail;
  long n = gate(&fail);
  if (fail) {
    emit(n, "trunc", -1, g_fail_errno, "fd=%d len=%ld %s FAILED-BY-SHIM", fd, (long)len, p);
    errno = g_fail_errno;
    return -1;
  }
  int r = which ? real_ftruncate64(fd, len) : real_ftruncate(fd, len);
  int e = errno;
  emit(n, "trunc", r, r < 0 ? e : 0, "fd=%d len=%ld %s", fd, (long)len, p);
  errno = e;
  return r;
}
int ftruncate(int fd, off_t len) { return do_ftruncate(0, fd, len); }
int ftruncate64(int fd, off64_t len) { return do_ftruncate(1, fd, len); }

int truncate(const char *path, off_t len) {
  ENS;
  char buf[PATH_MAX];
  const char *abs = resolve(AT_FDCWD, path, buf);
  if (!in_scope_path(abs)) return real_truncate(path, len);
  int fail;
  long n = gate(&fail);
  if (fail) {
    emit(n, "trunc", -1, g_fail_errno, "fd=-1 len=%ld %s FAILED-BY-SHIM", (long)len, abs);
    errno = g_fail_errno;
    return -1;
  }
  int r = real_truncate(path, len);
  int e = errno;
  emit(n, "trunc", r, r < 0 ? e : 0, "fd=-1 len=%ld %s", (long)len, abs);
  errno = e;
  return r;
}

int fallocate(int fd, int mode, off_t off, off_t len) {
  ENS;
  const char *p = fd_path(fd);
  if (!p) return real_fallocate(fd, mode, off, len);
  int fail;
  long n = gate(&fail);
  if (fail) {
    errno = g_fail_errno;
    return -1;
  }
  int r = real_fallocate(fd, mode, off, len);
  int e = errno;
  emit(n, "fallocate", r, r < 0 ? e : 0, "fd=%d mode=%d off=%ld len=%ld %s", fd, mode, (long)off, (long)len, p);
  errno = e;
  return r;
}

static int do_sync(int data_only, int fd) {
  ENS;
  const char *p = fd_path(fd);
  if (!p) return data_only ? real_fdatasync(fd) : real_fsync(fd);
  int fail;
  long n = gate(&fail);
  const char *kind = data_only ? "fdatasync" : "fsync";
  if (fail) {
    emit(n, "sync", -1, g_fail_errno, "fd=%d kind=%s %s FAILED-BY-SHIM", fd, kind, p);
    errno = g_fail_errno;
    return -1;
  }
  int r = data_only ? real_fdatasync(fd) : real_fsync(fd);
  int e = errno;
  emit(n, "sync", r, r < 0 ? e : 0, "fd=%d kind=%s %s", fd, kind, p);
  errno = e;
  return r;
}
int fsync(int fd) { return do_sync(0, fd); }
int fdatasync(int fd) { return do_sync(1, fd); }

static int do_rename(int olddir, const char *from, int newdir, const char *to, unsigned flags, int which) {
  ENS;
  char b1[PATH_MAX], b2[PATH_MAX];
  const char *a = resolve(olddir, from, b1), *b = resolve(newdir, to, b2);
  int scope = in_scope_path(a) || in_scope_path(b);
  long n = 0;
  if (scope) {
    int fail;
    n = gate(&fail);
    if (fail) {
      emit(n, "rename", -1, g_fail_errno, "%s %s FAILED-BY-SHIM", a, b);
      errno = g_fail_errno;
      return -1;
    }
  }
  int r;
  if (which == 0) r = real_rename(from, to);
  else if (which == 1) r = real_renameat(olddir, from, newdir, to);
  else r = real_renameat2(olddir, from, newdir, to, flags);
  int e = errno;
  if (scope) emit(n, "rename", r, r < 0 ? e : 0, "%s %s", a, b);
  errno = e;
  return r;
}
int rename(const char *a, const char *b) { return do_rename(AT_FDCWD, a, AT_FDCWD, b, 0, 0); }
int renameat(int od, const char *a, int nd, const char *b) { return do_rename(od, a, nd, b, 0, 1); }
int renameat2(int od, const char *a, int nd, const char *b, unsigned f) { return do_rename(od, a, nd, b, f, 2); }

static int do_unlink(int dirfd, const char *path, int flags, int which) {
  ENS;
  char buf[PATH_MAX];
  const char *abs = resolve(dirfd, path, buf);
  int scope = in_scope_path(abs);
  long n = 0;
  const char *op = (flags & AT_REMOVEDIR) ? "rmdir" : "unlink";
  if (scope) {
    int fail;
    n = gate(&fail);
    if (fail) {
      emit(n, op, -1, g_fail_errno, "%s FAILED-BY-SHIM", abs);
      errno = g_fail_errno;
      return -1;
    }
  }
  int r;
  if (which == 0) r = real_unlink(path);
  else if (which == 1) r = real_unlinkat(dirfd, path, flags);
  else r = real_rmdir(path);
  int e = errno;
  if (scope) emit(n, op, r, r < 0 ? e : 0, "%s", abs);
  errno = e;
  return r;
}
int unlink(const char *p) { return do_unlink(AT_FDCWD, p, 0, 0); }
int unlinkat(int d, const char *p, int f) { return do_unlink(d, p, f, 1); }
int rmdir(const char *p) { return do_unlink(AT_FDCWD, p, AT_REMOVEDIR, 2); }

static int do_mkdir(int dirfd, const char *path, mode_t mode, int which) {
  ENS;
  char buf[PATH_MAX];
  const char *abs = resolve(dirfd, path, buf);
  // creating the root itself (or its parents) is in scope only for the root
  int scope = in_scope_path(abs);
  long n = 0;
  if (scope) {
    int fail;
    n = gate(&fail);
    if (fail) {
      emit(n, "mkdir", -1, g_fail_errno, "%s FAILED-BY-SHIM", abs);
      errno = g_fail_errno;
      return -1;
    }
  }
  int r = which ? real_mkdirat(dirfd, path, mode) : real_mkdir(path, mode);
  int e = errno;
  if (scope) emit(n, "mkdir", r, r < 0 ? e : 0, "%s", abs);
  errno = e;
  return r;
}
int mkdir(const char *p, mode_t m) { return do_mkdir(AT_FDCWD, p, m, 0); }
int mkdirat(int d, const char *p, mode_t m) { return do_mkdir(d, p, m, 1); }

static int do_link(int od, const char *from, int nd, const char *to, int flags, int which) {
  ENS;
  char b1[PATH_MAX], b2[PATH_MAX];
  const char *a = resolve(od, from, b1), *b = resolve(nd, to, b2);
  int scope = in_scope_path(a) || in_scope_path(b);
  long n = 0;
  if (scope) {
    int fail;
    n = gate(&fail);
    if (fail) {
      emit(n, "link", -1, g_fail_errno, "%s %s FAILED-BY-SHIM", a, b);
      errno = g_fail_errno;
      return -1;
    }
  }
  int r = which ? real_linkat(od, from, nd, to, flags) : real_link(from, to);
  int e = errno;
  if (scope) emit(n, "link", r, r < 0 ? e : 0, "%s %s", a, b);
  errno = e;
  return r;
}
int link(const char *a, const char *b) { return do_link(AT_FDCWD, a, AT_FDCWD, b, 0, 0); }
int linkat(int od, const char *a, int nd, const char *b, int f) { return do_link(od, a, nd, b, f, 1); }

ssize_t copy_file_range(int fin, off64_t *oin, int fout, off64_t *oout, size_t len, unsigned flags) {
  ENS;
  const char *p = fd_path(fout);
  if (!p) return real_copy_file_range(fin, oin, fout, oout, len, flags);
  int fail;
  long n = gate(&fail);
  if (fail) {
    errno = g_fail_errno;
    return -1;
  }
  ssize_t r = real_copy_file_range(fin, oin, fout, oout, len, flags);
  int e = errno;
  emit(n, "copy_file_range", r, r < 0 ? e : 0, "fd=%d len=%zu %s", fout, len, p);
  errno = e;
  return r;
}

int close(int fd) {
  ENS;
  const char *p = fd_path(fd);
  if (!p) return real_close(fd);
  char keep[PATH_MAX];
  strncpy(keep, p, sizeof keep - 1);
  keep[sizeof keep - 1] = 0;
  set_fd(fd, NULL);
  int r = real_close(fd);
  int e = errno;
  emit(0, "close", r, r < 0 ? e : 0, "fd=%d %s", fd, keep);
  errno = e;
  return r;
}

int flock(int fd, int op) {
  ENS;
  const char *p = fd_path(fd);
  int r = real_flock(fd, op);
  int e = errno;
  if (p) emit(0, "flock", r, r < 0 ? e : 0, "fd=%d op=%d %s", fd, op, p);
  errno = e;
  return r;
}
