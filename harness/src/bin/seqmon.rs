//! seqmon: random sequential histories on one handle, judged step by step against the
//! reference model (C01 C02 C07 C12 C17 C18 C20), twin runs with/without abandoned
//! transactions (C13) and settings/version gating (C19).
//!
//! usage: seqmon --focus C01 --seed S --cases N [--case I] [--threads T] [--out report.json]

use std::collections::BTreeSet;
use std::io::Read;
use std::ops::Bound;
use std::path::Path;
use std::sync::Mutex;
use std::sync::atomic::{AtomicU64, Ordering};

use cassadilia_verif::fsx;
use cassadilia_verif::generator::{Gen, GenCfg};
use cassadilia_verif::json::J;
use cassadilia_verif::keys::TestKey;
use cassadilia_verif::ops::{Op, enc_script};
use cassadilia_verif::oracle::{self, LogTracker, Observable};
use cassadilia_verif::report::{Args, Finding, Report};
use cassadilia_verif::rng::Rng;
use cassadilia_verif::session::{ModelRunner, Outcome, Session, config};

const SEG_SIZES: &[u64] = &[1, 2, 3, 5, 7, 1000];

#[derive(Clone)]
struct Params {
    focus: String,
    seed: u64,
    tier_thorough: bool,
}

fn main() {
    let args = Args::from_env();
    let focus = args.str("focus", "C01");
    let seed = args.u64("seed", 1);
    let cases = args.u64("cases", 200);
    let threads = args.u64("threads", 16) as usize;
    let single = args.get("case").map(|s| s.parse::<u64>().expect("--case"));
    let deadline_s = args.u64("deadline", 3600);
    let params = Params { focus: focus.clone(), seed, tier_thorough: args.has("thorough") };
    let _guard = fsx::ScratchGuard;
    cassadilia_verif::report::install_panic_location_hook();

    let started = std::time::Instant::now();
    let next = AtomicU64::new(0);
    let total = Mutex::new(Report::new("seqmon"));
    let ids: Vec<u64> = match single {
        Some(i) => vec![i],
        None => (0..cases).collect(),
    };
    std::thread::scope(|s| {
        for _ in 0..threads.min(ids.len()).max(1) {
            s.spawn(|| {
                let mut rep = Report::new("seqmon");
                loop {
                    let idx = next.fetch_add(1, Ordering::Relaxed) as usize;
                    if idx >= ids.len() {
                        break;
                    }
                    if started.elapsed().as_secs() > deadline_s {
                        rep.count("cases_skipped_deadline", 1);
                        continue;
                    }
                    let case = ids[idx];
                    let r = std::panic::catch_unwind(std::panic::AssertUnwindSafe(|| {
                        run_case(&params, case, &mut rep);
                    }));
                    let at = cassadilia_verif::report::last_panic_location();
                    if r.is_err() && cassadilia_verif::report::panic_is_in_harness(&at) {
                        rep.inconclusive.push(format!("harness panic at {at} in case {case}"));
                    } else if let Err(p) = r {
                        let msg = format!("{} (at {at})", panic_text(&p));
                        // a panic that unwinds out of the store is an observation about the store
                        // only if it comes from its code; the message is kept for classification.
                        rep.violate(
                            Finding::new(
                                &panic_props(&params.focus),
                                "panic while executing a history",
                                "panic",
                                msg,
                            ),
                            replay_json(&params, case, ""),
                        );
                    }
                }
                total.lock().unwrap().merge(rep);
            });
        }
    });
    let mut rep = total.into_inner().unwrap();
    rep.count("wall_ms", started.elapsed().as_millis() as u64);
    rep.emit(args.get("out"));
}

fn panic_props(focus: &str) -> Vec<&'static str> {
    // a panic in a fault-free sequential history contradicts the property being exercised
    match focus {
        "C02" => vec!["C02"],
        "C06" => vec!["C06"],
        "C07" => vec!["C07"],
        "C12" => vec!["C12"],
        "C13" => vec!["C13"],
        "C17" => vec!["C17"],
        "C18" => vec!["C18"],
        "C19" => vec!["C19"],
        "C20" => vec!["C20"],
        _ => vec!["C01"],
    }
}

fn panic_text(p: &Box<dyn std::any::Any + Send>) -> String {
    if let Some(s) = p.downcast_ref::<String>() {
        s.clone()
    } else if let Some(s) = p.downcast_ref::<&str>() {
        (*s).to_string()
    } else {
        "non-string panic".into()
    }
}

fn replay_json(p: &Params, case: u64, history: &str) -> J {
    J::obj()
        .set("engine", J::s("seqmon"))
        .set(
            "argv",
            J::Arr(
                [
                    "--focus".to_string(),
                    p.focus.clone(),
                    "--seed".into(),
                    p.seed.to_string(),
                    "--case".into(),
                    case.to_string(),
                ]
                .into_iter()
                .map(J::Str)
                .collect(),
            ),
        )
        .set("history", J::s(history))
}

fn run_case(p: &Params, case: u64, rep: &mut Report) {
    let types = 7;
    match case % types {
        0 => run_typed::<String>(p, case, rep),
        1 => run_typed::<Vec<u8>>(p, case, rep),
        2 => run_typed::<[u8; 4]>(p, case, rep),
        3 => run_typed::<u8>(p, case, rep),
        4 => run_typed::<i32>(p, case, rep),
        5 => run_typed::<u64>(p, case, rep),
        _ => run_typed::<i128>(p, case, rep),
    }
}

fn run_typed<K: TestKey>(p: &Params, case: u64, rep: &mut Report) {
    match p.focus.as_str() {
        "C13" => run_twin::<K>(p, case, rep),
        "C19" => run_gate::<K>(p, case, rep),
        _ => run_model::<K>(p, case, rep),
    }
}

fn gen_cfg(focus: &str, rng: &mut Rng, thorough: bool) -> GenCfg {
    let mut g = GenCfg::default();
    match focus {
        "C02" | "C20" => {
            g.n_keys = 5;
            g.n_contents = 4;
        }
        "C07" | "C12" => {
            g.n_keys = 5;
            g.n_contents = 3;
        }
        "C13" => {
            g.n_keys = 4;
            g.n_contents = 4;
        }
        "C18" => {
            g.n_keys = 3;
            g.n_contents = 6;
        }
        "C06" => {
            // blob-file integrity under every write shape: few keys, many contents, and the
            // large contents (header + big body, big body + trailer) in every history
            g.n_keys = 3;
            g.n_contents = 6;
            g.allow_big = true;
            return g;
        }
        _ => {
            g.n_keys = rng.range(2, 8) as usize;
            g.n_contents = rng.range(2, 6) as usize;
        }
    }
    g.allow_big = thorough && rng.chance(1, 6);
    g
}

#[derive(Default)]
struct Features {
    overwrite: bool,
    remove_present: bool,
    shared: bool,
    reput_same: bool,
    reopen_after_mut: bool,
    rollover: bool,
    abort_nonempty: bool,
    multi_chunk: bool,
    range_multi: bool,
    tx_overlap: bool,
    blob_deleted: bool,
}

impl Features {
    fn nontrivial_for(&self, focus: &str) -> bool {
        match focus {
            "C01" => self.overwrite || self.remove_present,
            "C02" => self.reopen_after_mut,
            "C07" => (self.shared || self.reput_same) && self.blob_deleted,
            "C12" => self.shared || self.reput_same || self.range_multi,
            "C13" => self.abort_nonempty,
            "C17" => self.overwrite || self.remove_present || self.multi_chunk,
            "C06" | "C18" => self.multi_chunk,
            "C20" => self.rollover,
            _ => true,
        }
    }
    fn record(&self, rep: &mut Report) {
        let f = [
            ("feat_overwrite", self.overwrite),
            ("feat_remove_present", self.remove_present),
            ("feat_shared_content", self.shared),
            ("feat_reput_same", self.reput_same),
            ("feat_reopen_after_mutation", self.reopen_after_mut),
            ("feat_rollover", self.rollover),
            ("feat_abort_nonempty", self.abort_nonempty),
            ("feat_multi_chunk", self.multi_chunk),
            ("feat_range_multi", self.range_multi),
            ("feat_tx_overlap", self.tx_overlap),
            ("feat_blob_deleted", self.blob_deleted),
        ];
        for (n, b) in f {
            if b {
                rep.count(n, 1);
            }
        }
    }
}

fn note_features<K: TestKey>(f: &mut Features, op: &Op<K>, mr: &ModelRunner<K>, open_tx: usize) {
    match op {
        Op::Put { key, content, chunks } => {
            let bytes = content.bytes();
            if let Some(old) = mr.model.map.get(key) {
                if *old == bytes {
                    f.reput_same = true;
                } else {
                    f.overwrite = true;
                    if mr.model.map.values().filter(|v| *v == old).count() == 1 {
                        f.blob_deleted = true;
                    }
                }
            }
            if mr.model.map.iter().any(|(k, v)| k != key && *v == bytes) {
                f.shared = true;
            }
            if chunks.len() > 1 {
                f.multi_chunk = true;
            }
        }
        Op::PutAbort { chunks, .. } => {
            if chunks.iter().sum::<usize>() > 0 {
                f.abort_nonempty = true;
            }
        }
        Op::TxBegin { .. } => {
            if open_tx > 0 {
                f.tx_overlap = true;
            }
        }
        Op::TxDrop { .. } => f.abort_nonempty = true,
        Op::Remove { key } => {
            if let Some(old) = mr.model.map.get(key) {
                f.remove_present = true;
                if mr.model.map.values().filter(|v| *v == old).count() == 1 {
                    f.blob_deleted = true;
                }
            }
        }
        Op::RemoveRange { lo, hi } => {
            let n = mr.model.map.keys().filter(|k| cassadilia_verif::ops::in_range(*k, lo, hi)).count();
            if n >= 2 {
                f.range_multi = true;
                f.remove_present = true;
                f.blob_deleted = true;
            }
        }
        _ => {}
    }
}

/// Model-based run: every oracle after every step.
fn run_model<K: TestKey>(p: &Params, case: u64, rep: &mut Report) {
    let mut rng = Rng::derive(p.seed, case);
    let mut n_ops = *rng.pick(SEG_SIZES);
    let sync = !rng.chance(1, 4);
    let gcfg = gen_cfg(&p.focus, &mut rng, p.tier_thorough);
    let mut g: Gen<K> = Gen::new(&mut rng, gcfg);
    let mut steps = rng.range(15, if p.tier_thorough { 70 } else { 45 }) as usize;
    if p.tier_thorough && case % 101 == 100 {
        // the "large files" regime: one 12 MiB content, few keys, short history
        g.contents[0] = cassadilia_verif::ops::Content::new(77, 12 << 20);
        g.keys.truncate(2);
        g.extra.truncate(1);
        steps = 8;
        rep.count("histories_with_12MiB_blob", 1);
    }
    // the "many keys" regime: 140-330 keys, so that range removals, snapshots and log records
    // carry hundreds of entries (counts beyond one byte, records beyond the I/O buffer)
    let wide = case % 53 == 52 && K::NAME != "u8";
    let mut wide_prefix: Vec<Op<K>> = Vec::new();
    // blob-integrity focus: one content above 4 MiB (beyond any buffer, mmap window or chunked
    // code path), stored first and then overwritten / removed while readers hold it
    if p.focus == "C06" && case % 25 == 24 && !(p.tier_thorough && case % 101 == 100) {
        // lengths: above 4 MiB, or an exact multiple of 1 MiB (allocation / growth steps),
        // written in one call or in 1 MiB calls
        let (len, chunks): (usize, Vec<usize>) = match (case / 25) % 4 {
            0 => ((4 << 20) + rng.range(1, 2 << 20) as usize, vec![100]),
            1 => (1 << 20, vec![]),
            2 => (3 << 20, vec![1 << 20, 1 << 20]),
            _ => (4 << 20, vec![]),
        };
        g.contents[0] = cassadilia_verif::ops::Content::new(78, len);
        g.keys.truncate(2);
        g.extra.truncate(1);
        wide_prefix.push(Op::Put { key: g.keys[0].clone(), content: g.contents[0], chunks });
        steps = 10;
        rep.count("histories_with_blob_of_1_to_6_MiB", 1);
    }
    if wide {
        let n = rng.range(140, 330) as usize;
        let all: Vec<K> = (0..n).map(|i| K::bulk(i, 7)).collect();
        let c = cassadilia_verif::ops::Content::new(5, 9);
        let d = cassadilia_verif::ops::Content::new(6, 10);
        // every other wide history is a "purge": a third of the keys hold contents of their own
        // (dozens of distinct blobs live at once), then all but four keys go in one removal, a
        // checkpoint follows, and one of two surviving keys that share a content is removed
        let purge = rng.chance(1, 2);
        for (i, k) in all.iter().enumerate() {
            let content = if i == 0 || i == n - 1 || i % 3 == 0 {
                d
            } else if purge && i % 3 == 1 {
                cassadilia_verif::ops::Content::new(2000 + i as u32, 11 + i % 7)
            } else {
                c
            };
            wide_prefix.push(Op::Put { key: k.clone(), content, chunks: vec![] });
        }
        if purge {
            wide_prefix.push(Op::RemoveRange { lo: Bound::Included(all[2].clone()), hi: Bound::Excluded(all[n - 2].clone()) });
            wide_prefix.push(Op::Checkpoint);
            wide_prefix.push(Op::Remove { key: all[0].clone() });
            rep.count("histories_with_mass_removal_then_checkpoint", 1);
        }
        // probes and generator keys: a sample, so that the per-step read oracle stays cheap
        g.keys = (0..8).map(|j| all[(j * n / 8 + j) % n].clone()).collect();
        g.extra = vec![all[n / 2].clone(), all[n - 1].clone()];
        steps = wide_prefix.len() + 14;
        rep.count("histories_with_hundreds_of_keys", 1);
    }
    // the "huge record" regime (variable-length key types): 300-byte keys by the hundred and one
    // 70 kB key, so that single log records exceed 64 KiB (a multi-key removal, a put and a removal
    // of the long key), each followed by a reopen while the record is still only in the log
    let huge = matches!(case % 53, 26 | 27) && (K::NAME == "String" || K::NAME == "Vec<u8>");
    if huge {
        n_ops = 1000;
        let n = rng.range(260, 340) as usize;
        let all: Vec<K> = (0..n).map(|i| K::bulk(i, 300)).collect();
        let long = K::bulk(999_999, 70_000 + rng.usize(3000));
        let c = cassadilia_verif::ops::Content::new(5, 9);
        let d = cassadilia_verif::ops::Content::new(6, 10);
        for (i, k) in all.iter().enumerate() {
            wide_prefix.push(Op::Put { key: k.clone(), content: if i % 3 == 0 { d } else { c }, chunks: vec![] });
        }
        let reopen = Op::Reopen { flip_sync: false, pre_create: false };
        wide_prefix.push(Op::Put { key: long.clone(), content: d, chunks: vec![] });
        wide_prefix.push(reopen.clone());
        wide_prefix.push(Op::RemoveRange { lo: Bound::Included(all[5].clone()), hi: Bound::Excluded(all[n - 5].clone()) });
        wide_prefix.push(reopen.clone());
        wide_prefix.push(Op::Remove { key: long.clone() });
        wide_prefix.push(reopen);
        g.keys = (0..8).map(|j| all[(j * n / 8 + j) % n].clone()).collect();
        g.extra = vec![all[n / 2].clone(), long];
        steps = wide_prefix.len() + 6;
        rep.count("histories_with_log_records_over_64KiB", 1);
    }
    let root = fsx::fresh_path("seq");
    let cfg = config(n_ops, sync, false, true, true);
    let mut history: Vec<Op<K>> = Vec::new();
    let header = format!("# keytype={} n_ops={n_ops} sync={sync}\n", K::NAME);
    let mut findings: Vec<Finding> = Vec::new();
    let mut feats = Features::default();

    let mut sess = match Session::<K>::open(&root, cfg) {
        Ok(s) => s,
        Err(e) => {
            rep.violate(
                Finding::new(
                    &["C01"],
                    "open of a fresh directory failed",
                    "open",
                    cassadilia_verif::session::err_chain(&e),
                ),
                replay_json(p, case, &header),
            );
            return;
        }
    };
    let mut mr: ModelRunner<K> = ModelRunner::new();
    let mut tracker = LogTracker::default();
    let probes = g.probes();
    let mut mutated_since_open = false;
    let mut oracle_checks = 0u64;

    // C02-focused placement: force reopen/checkpoint around segment boundaries
    let boundary_focus = matches!(p.focus.as_str(), "C02" | "C20");

    for step in 0..steps {
        let mut forced: Option<Op<K>> = None;
        if boundary_focus && n_ops <= 7 {
            let v = tracker.max_seen;
            let near = v % n_ops == 0 || v % n_ops == 1 || v % n_ops == n_ops - 1;
            if near && rng.chance(1, 3) {
                forced = Some(if rng.chance(2, 3) {
                    g.open_slots.clear();
                    Op::Reopen { flip_sync: rng.chance(1, 4), pre_create: false }
                } else {
                    Op::Checkpoint
                });
            }
        }
        let op = if step < wide_prefix.len() {
            wide_prefix[step].clone()
        } else {
            match forced {
                Some(op) => op,
                None => g.next_op(&mut rng, &mr.model),
            }
        };
        note_features(&mut feats, &op, &mr, sess.open_tx_count());
        history.push(op.clone());

        let before_reopen = if matches!(op, Op::Reopen { .. }) {
            Some((oracle::observe(sess.cas()), cassadilia_verif::disk::decode_db(&root, n_ops)))
        } else {
            None
        };
        // readers obtained before a mutation keep streaming the complete original content (C06)
        let mut held: Vec<(K, Vec<u8>, std::io::BufReader<std::fs::File>, Vec<u8>)> = Vec::new();
        if op.is_mutation() && sess.is_open() {
            for k in probes.iter() {
                if held.len() >= 3 {
                    break;
                }
                if let Some(v) = mr.model.map.get(k)
                    && let Ok(Some(mut r)) = sess.cas().get_reader(k)
                {
                    let mut head = vec![0u8; v.len().min(1024)];
                    if r.read_exact(&mut head).is_ok() {
                        held.push((k.clone(), v.clone(), r, head));
                    }
                }
            }
        }
        let logs = mr.logs_record(&op);
        let want = mr.step(&op);
        let got = sess.exec(&op);
        for (k, v, mut r, mut streamed) in held {
            let ok = r.read_to_end(&mut streamed).is_ok();
            rep.count("readers_held_across_a_mutation", 1);
            if !ok || streamed != v {
                findings.push(Finding::new(
                    &["C06"],
                    "a reader obtained before a mutation did not stream the complete original content",
                    "held reader",
                    format!(
                        "key {k:?}: content of {} bytes, reader opened and {} bytes read before `{}`, {} bytes in total afterwards{}",
                        v.len(),
                        v.len().min(1024),
                        op.enc().chars().take(60).collect::<String>(),
                        streamed.len(),
                        if ok { "" } else { " (read failed)" }
                    ),
                ));
            }
        }
        match &got {
            Ok(o) if *o == want => {}
            Ok(o) => findings.push(Finding::new(
                &["C01"],
                "operation returned a different result than the ordered map",
                "return value",
                format!("step {step} {}: want {want:?} got {o:?}", op.enc()),
            )),
            Err(e) => findings.push(Finding::new(
                &[focus_static(&p.focus)],
                "operation failed in a fault-free history",
                "operation error",
                format!("step {step} {}: {e}", op.enc()),
            )),
        }
        if got.is_err() && !sess.is_open() {
            break;
        }
        if op.is_mutation() && logs {
            mutated_since_open = true;
            if tracker.max_seen + 1 > n_ops {
                feats.rollover = true;
            }
        }
        // oracles
        oracle_checks += oracle::check_reads(sess.cas(), &mr.model, &probes, &mut rng, &mut findings);
        if sess.open_tx_count() == 0 {
            oracle::check_cas_exact(&root, &mr.model, &mut findings);
        } else {
            oracle::check_cas_files_intact(&root, &mut findings);
            let staging = fsx::files_rec(&root.join("staging")).len();
            if staging != sess.open_tx_count() {
                findings.push(Finding::new(
                    &["C13", "C07"],
                    "staging/ does not hold exactly one file per open transaction",
                    "staging listing",
                    format!("{staging} files, {} open transactions", sess.open_tx_count()),
                ));
            }
        }
        let expect_new = match &op {
            Op::PutAbort { .. } | Op::TxDrop { .. } => Some(false),
            _ => None,
        };
        oracle::check_format(&root, n_ops, &mr.model, &mut tracker, expect_new, &mut findings);

        // "at any point of any history": besides the reopen operations of the history itself, a
        // copy of the directory taken at this operation boundary is opened on the side (what a
        // restart right now would find; damage that a later operation heals is still seen)
        if p.focus == "C02" && sess.open_tx_count() == 0 && !matches!(op, Op::Reopen { .. }) && rng.chance(1, 2) {
            let copy = fsx::fresh_path("seqcopy");
            if fsx::copy_tree(&root, &copy).is_ok() {
                match cassadilia::Cas::<K>::open(&copy, config(n_ops, true, false, true, true)) {
                    Ok(c2) => {
                        let o = oracle::observe(&c2);
                        let want = Observable::of_model(&mr.model, o.index_size);
                        let d = want.diff(&o, true);
                        if !d.is_empty() {
                            findings.push(Finding::new(
                                &["C02"],
                                "a restart at this point of the history shows a state other than the model",
                                "side reopen of a copy at an operation boundary",
                                format!("step {step} {}: {}", op.enc(), d.join("; ")),
                            ));
                        }
                    }
                    Err(e) => findings.push(Finding::new(
                        &["C02"],
                        "a restart at this point of the history fails",
                        "side reopen of a copy at an operation boundary",
                        format!("step {step} {}: {}", op.enc(), cassadilia_verif::session::err_chain(&e)),
                    )),
                }
                rep.count("side_reopens_at_operation_boundaries", 1);
            }
            fsx::rm_rf(&copy);
        }
        if let Some((before, disk_before)) = before_reopen {
            if mutated_since_open {
                feats.reopen_after_mut = true;
            }
            mutated_since_open = false;
            let after = oracle::observe(sess.cas());
            let replays_nothing = match &disk_before {
                Ok(d) => d.max_version == d.snapshot_version,
                Err(_) => false,
            };
            let d = before.diff(&after, !replays_nothing);
            if !d.is_empty() {
                findings.push(Finding::new(
                    &["C02"],
                    "observable state changed across a clean restart",
                    if replays_nothing { "reopen without replay" } else { "reopen with replay" },
                    d.join("; "),
                ));
            }
            let want_obs = Observable::of_model(&mr.model, after.index_size);
            let d2 = want_obs.diff(&after, true);
            if !d2.is_empty() {
                findings.push(Finding::new(
                    &["C02"],
                    "state after a clean restart differs from the model",
                    "reopen",
                    d2.join("; "),
                ));
            }
            rep.count("reopens", 1);
            if replays_nothing {
                rep.count("reopens_without_replay", 1);
            }
        }
        // Stop at the first finding that concerns the property this run is about. Findings of
        // other properties do not end the history: an early symptom under one property must not
        // hide the later symptom of the same defect under another (each check reads only its own).
        let focus = focus_static(&p.focus);
        if findings.iter().any(|f| f.props.contains(&focus)) || findings.len() > 30 {
            break;
        }
    }
    sess.close();
    fsx::rm_rf(&root);
    // one witness per (kind, site) is enough
    {
        let mut seen = std::collections::BTreeSet::new();
        findings.retain(|f| seen.insert((f.kind.clone(), f.site.clone())));
    }

    rep.evaluations += 1;
    rep.count("steps", history.len() as u64);
    rep.count("oracle_read_checks", oracle_checks);
    rep.count(&format!("keytype_{}", K::NAME), 1);
    rep.count(&format!("segsize_{n_ops}"), 1);
    rep.max("max_version_reached", tracker.max_seen);
    feats.record(rep);
    let script = format!("{header}{}", enc_script(&history));
    if feats.nontrivial_for(&p.focus) {
        rep.distinct_case(script.as_bytes());
    }
    if rep.samples.len() < 3 {
        rep.sample(
            J::obj()
                .set("case", J::u(case))
                .set("keytype", J::s(K::NAME))
                .set("n_ops_per_wal", J::u(n_ops))
                .set("sync", J::Bool(sync))
                .set("history", J::Arr(history.iter().take(30).map(|o| J::s(o.enc())).collect())),
        );
    }
    for f in findings {
        rep.violate(f, replay_json(p, case, &script));
    }
}

fn focus_static(focus: &str) -> &'static str {
    match focus {
        "C02" => "C02",
        "C06" => "C06",
        "C07" => "C07",
        "C12" => "C12",
        "C13" => "C13",
        "C17" => "C17",
        "C18" => "C18",
        "C19" => "C19",
        "C20" => "C20",
        _ => "C01",
    }
}

/// Files that must be byte-identical between the twin databases: everything except
/// `staging/` (random names) and nothing else.
fn twin_view(root: &Path) -> std::collections::BTreeMap<String, fsx::Node> {
    let mut m = fsx::tree_snapshot(root);
    m.retain(|k, _| !k.starts_with("staging/"));
    m
}

/// C13: database A runs the history, database B runs the same history with every abandoned
/// transaction removed. After every step both must be indistinguishable: API-observable state,
/// and every file outside staging/ byte for byte (CAS files, log, snapshot).
fn run_twin<K: TestKey>(p: &Params, case: u64, rep: &mut Report) {
    let mut rng = Rng::derive(p.seed, case);
    let n_ops = *rng.pick(SEG_SIZES);
    let sync = !rng.chance(1, 4);
    let mut gcfg = gen_cfg("C13", &mut rng, p.tier_thorough);
    gcfg.allow_reopen = true;
    let mut g: Gen<K> = Gen::new(&mut rng, gcfg);
    let mut steps = rng.range(12, 40) as usize;
    // the "many abandoned transactions" regime: hundreds of them on one handle (more than any
    // table of open transactions, descriptors or slots could hold if one leaked per abort)
    let many_aborts = case % 59 == 58;
    let abort_prefix = if many_aborts { rng.range(270, 340) as usize } else { 0 };
    if many_aborts {
        steps += abort_prefix;
        rep.count("histories_with_hundreds_of_abandoned_transactions", 1);
    }
    let root_a = fsx::fresh_path("twinA");
    let root_b = fsx::fresh_path("twinB");
    let cfg = config(n_ops, sync, false, true, true);
    let header = format!("# twin keytype={} n_ops={n_ops} sync={sync}\n", K::NAME);
    let (mut a, mut b) = match (Session::<K>::open(&root_a, cfg.clone()), Session::<K>::open(&root_b, cfg)) {
        (Ok(a), Ok(b)) => (a, b),
        _ => {
            rep.inconclusive.push("twin open failed".into());
            return;
        }
    };
    let mut mr: ModelRunner<K> = ModelRunner::new();
    let mut history: Vec<Op<K>> = Vec::new();
    let mut findings: Vec<Finding> = Vec::new();
    let mut feats = Features::default();
    // which slots are destined to be dropped: decided when the slot is closed; B therefore runs
    // transactions lazily — it begins/writes a slot only at its finish.
    let mut b_pending: std::collections::BTreeMap<usize, (K, cassadilia_verif::ops::Content)> =
        Default::default();
    let mut aborts = 0u64;
    for step in 0..steps {
        // bias toward aborts
        let op = if step < abort_prefix || rng.chance(1, 4) {
            let key = rng.pick(&g.keys).clone();
            // content: current value of the key, a live blob, or a pool content
            let content = if let Some(v) = mr.model.map.get(&key)
                && rng.chance(1, 3)
                && let Some(c) = g.contents.iter().copied().find(|c| c.bytes() == *v)
            {
                c
            } else {
                *rng.pick(&g.contents)
            };
            let chunks = match rng.below(4) {
                0 => vec![],
                1 => vec![content.len],
                2 => vec![content.len / 2],
                _ => Gen::<K>::chunks(&mut rng, content.len),
            };
            Op::PutAbort { key, content, chunks }
        } else {
            g.next_op(&mut rng, &mr.model)
        };
        note_features(&mut feats, &op, &mr, a.open_tx_count());
        history.push(op.clone());
        mr.step(&op);
        let ra = a.exec(&op);
        // B: same op unless it belongs to an abandoned transaction
        let rb: Result<Outcome, String> = match &op {
            Op::PutAbort { .. } => {
                aborts += 1;
                Ok(Outcome::Unit)
            }
            Op::TxBegin { slot, key, content } => {
                b_pending.insert(*slot, (key.clone(), *content));
                Ok(Outcome::Unit)
            }
            Op::TxWrite { .. } => Ok(Outcome::Unit),
            Op::TxDrop { slot } => {
                aborts += 1;
                b_pending.remove(slot);
                Ok(Outcome::Unit)
            }
            Op::TxFinish { slot } => match b_pending.remove(slot) {
                Some((key, content)) => b.exec(&Op::Put { key, content, chunks: vec![] }),
                None => Ok(Outcome::Unit),
            },
            Op::Reopen { .. } => {
                b_pending.clear();
                b.exec(&op)
            }
            other => b.exec(other),
        };
        if ra.is_err() || rb.is_err() || ra != rb {
            findings.push(Finding::new(
                &["C13"],
                "an operation behaved differently next to an abandoned transaction",
                "twin result",
                format!("step {step} {}: with aborts {ra:?}, without {rb:?}", op.enc()),
            ));
            break;
        }
        let oa = oracle::observe(a.cas());
        let ob = oracle::observe(b.cas());
        let d = oa.diff(&ob, false);
        if !d.is_empty() {
            findings.push(Finding::new(
                &["C13"],
                "API-visible state differs from the run without the abandoned transactions",
                "twin observable",
                format!("step {step} {}: {}", op.enc(), d.join("; ")),
            ));
            break;
        }
        let ta = twin_view(&root_a);
        let tb = twin_view(&root_b);
        if ta != tb {
            findings.push(Finding::new(
                &["C13"],
                "files on disk differ from the run without the abandoned transactions",
                "twin files",
                format!("step {step} {}: {:?}", op.enc(), fsx::diff_snapshots(&tb, &ta)),
            ));
            break;
        }
        let sa = fsx::files_rec(&root_a.join("staging")).len();
        if sa != a.open_tx_count() {
            findings.push(Finding::new(
                &["C13"],
                "staging/ does not hold exactly one file per open transaction",
                "staging listing",
                format!("step {step} {}: {sa} files, {} open", op.enc(), a.open_tx_count()),
            ));
            break;
        }
    }
    a.close();
    b.close();
    fsx::rm_rf(&root_a);
    fsx::rm_rf(&root_b);
    rep.evaluations += 1;
    rep.count("steps", history.len() as u64);
    rep.count("abandoned_transactions", aborts);
    rep.count(&format!("keytype_{}", K::NAME), 1);
    feats.record(rep);
    let script = format!("{header}{}", enc_script(&history));
    if aborts > 0 && feats.abort_nonempty {
        rep.distinct_case(script.as_bytes());
    }
    if rep.samples.len() < 3 {
        rep.sample(
            J::obj()
                .set("case", J::u(case))
                .set("mode", J::s("twin: with vs without abandoned transactions"))
                .set("history", J::Arr(history.iter().take(30).map(|o| J::s(o.enc())).collect())),
        );
    }
    for f in findings {
        rep.violate(f, replay_json(p, case, &script));
    }
}

/// C19: settings and version gate every open.
fn run_gate<K: TestKey>(p: &Params, case: u64, rep: &mut Report) {
    let mut rng = Rng::derive(p.seed, case);
    let sizes: &[u64] = &[1, 2, 3, 7, 1000, 10_000, u64::MAX];
    let n_create = *rng.pick(sizes);
    let mut g: Gen<K> = Gen::new(&mut rng, GenCfg { n_keys: 4, n_contents: 4, ..Default::default() });
    let root = fsx::fresh_path("gate");
    // rarely (thorough only): create WITH the pre-created tree of 65 536 directories, so that the
    // remembered choice is exercised in both directions
    let pre_at_creation = (p.tier_thorough && case % 2000 == 1999) || case % 1200 == 7;
    if pre_at_creation {
        rep.count("created_with_precreated_tree", 1);
    }
    let header = format!("# gate keytype={} n_create={n_create} pre_create_at_creation={pre_at_creation}\n", K::NAME);
    let cfg = config(n_create, true, pre_at_creation, true, true);
    let mut findings: Vec<Finding> = Vec::new();
    let mut history: Vec<Op<K>> = Vec::new();
    let mut log: Vec<String> = Vec::new();
    let mut mr: ModelRunner<K> = ModelRunner::new();
    let mut sess_opt = match Session::<K>::open(&root, cfg.clone()) {
        Ok(s) => Some(s),
        Err(e) => {
            rep.inconclusive.push(format!("gate open failed: {e}"));
            return;
        }
    };
    let probes = g.probes();
    let rounds = rng.range(2, 4);
    let mut rejected = 0u64;
    if pre_at_creation {
        // with the pre-created tree nothing creates directories later: a blob must be storable
        // again after its shard directory was emptied by a removal
        let k = g.keys[0].clone();
        let c = g.contents[g.contents.len() - 1];
        for op in [
            Op::Put { key: k.clone(), content: c, chunks: vec![] },
            Op::Remove { key: k.clone() },
            Op::Put { key: k.clone(), content: c, chunks: vec![] },
            Op::Remove { key: k.clone() },
        ] {
            history.push(op.clone());
            let want = mr.step(&op);
            match sess_opt.as_mut().unwrap().exec(&op) {
                Ok(o) if o == want => {}
                r => findings.push(Finding::new(
                    &["C19"],
                    "operation misbehaved on a store created with the pre-created directory tree",
                    "pre-created tree",
                    format!("{}: want {want:?} got {r:?}", op.enc()),
                )),
            }
        }
    }
    'outer: for round in 0..rounds {
        // a populated, not necessarily checkpointed tail
        let mut gc = g.cfg.clone();
        gc.allow_reopen = false;
        gc.allow_checkpoint = rng.chance(1, 2);
        g.cfg = gc;
        for _ in 0..rng.range(3, 10) {
            let op = g.next_op(&mut rng, &mr.model);
            history.push(op.clone());
            let want = mr.step(&op);
            match sess_opt.as_mut().unwrap().exec(&op) {
                Ok(o) if o == want => {}
                r => {
                    findings.push(Finding::new(
                        &["C19"],
                        "operation misbehaved after settings handling",
                        "operation",
                        format!("round {round} {}: want {want:?} got {r:?}", op.enc()),
                    ));
                    break 'outer;
                }
            }
        }
        g.open_slots.clear();
        mr.slots.clear();
        sess_opt.take().unwrap().close();

        // --- probes on the closed directory
        let base = fsx::tree_snapshot(&root);
        // (a) wrong segment size
        for _ in 0..2 {
            let mut n_bad = *rng.pick(sizes);
            if n_bad == n_create {
                n_bad = if n_create == 1 { 2 } else { n_create - 1 };
            }
            let r = cassadilia::Cas::<K>::open(&root, config(n_bad, true, rng.chance(1, 2), true, true));
            log.push(format!("open n={n_bad} on db created with n={n_create}"));
            match r {
                Ok(h) => {
                    drop(h);
                    findings.push(Finding::new(
                        &["C19"],
                        "open with a different segment size was accepted",
                        "segment size gate",
                        format!("created with {n_create}, opened with {n_bad}"),
                    ));
                }
                Err(_) => rejected += 1,
            }
            let after = fsx::tree_snapshot(&root);
            if after != base {
                findings.push(Finding::new(
                    &["C19"],
                    "a rejected open modified the database directory",
                    "segment size gate",
                    format!("{:?}", fsx::diff_snapshots(&base, &after)),
                ));
            }
        }
        // (b) wrong format version
        let settings_path = root.join("db_settings.json");
        if let Ok(orig) = std::fs::read_to_string(&settings_path) {
            for v in [0u64, 1, 3, 5, 4_294_967_295] {
                if !rng.chance(1, 2) {
                    continue;
                }
                let Some(patched) = patch_version(&orig, v) else {
                    rep.inconclusive.push("could not patch settings version".into());
                    continue;
                };
                std::fs::write(&settings_path, &patched).unwrap();
                let base_v = fsx::tree_snapshot(&root);
                let r = cassadilia::Cas::<K>::open(&root, config(n_create, true, false, true, true));
                log.push(format!("open with stored version {v}"));
                match r {
                    Ok(h) => {
                        drop(h);
                        findings.push(Finding::new(
                            &["C19"],
                            "open accepted a database of another format version",
                            "version gate",
                            format!("stored version {v}"),
                        ));
                    }
                    Err(_) => rejected += 1,
                }
                let after = fsx::tree_snapshot(&root);
                if after != base_v {
                    findings.push(Finding::new(
                        &["C19"],
                        "a rejected open modified the database directory",
                        "version gate",
                        format!("stored version {v}: {:?}", fsx::diff_snapshots(&base_v, &after)),
                    ));
                }
                std::fs::write(&settings_path, &orig).unwrap();
            }
            // (b2) the settings file lost its content (empty, blank, cut short): whatever such a
            // file means, it does not license an open with ANOTHER segment size on a populated
            // store - that open is rejected and changes nothing
            for (what, damaged) in [("empty", String::new()), ("blank", " \n".to_string()), ("cut short", orig[..orig.len() / 2].to_string())] {
                if !rng.chance(1, 2) {
                    continue;
                }
                std::fs::write(&settings_path, &damaged).unwrap();
                let base_v = fsx::tree_snapshot(&root);
                let n_bad = if n_create == 1 { 2 } else { n_create - 1 };
                let r = cassadilia::Cas::<K>::open(&root, config(n_bad, true, false, true, true));
                log.push(format!("open n={n_bad} with a settings file that is {what}"));
                match r {
                    Ok(h) => {
                        drop(h);
                        findings.push(Finding::new(
                            &["C19"],
                            "open with a different segment size was accepted because the settings file had lost its content",
                            "segment size gate",
                            format!("created with {n_create}, settings file {what}, opened with {n_bad}"),
                        ));
                    }
                    Err(_) => rejected += 1,
                }
                let after = fsx::tree_snapshot(&root);
                if after != base_v {
                    findings.push(Finding::new(
                        &["C19"],
                        "a rejected open modified the database directory",
                        "segment size gate",
                        format!("settings file {what}: {:?}", fsx::diff_snapshots(&base_v, &after)),
                    ));
                }
                std::fs::write(&settings_path, &orig).unwrap();
                if !findings.is_empty() {
                    break;
                }
            }
        } else {
            findings.push(Finding::new(
                &["C19"],
                "settings file missing after creation",
                "settings file",
                String::new(),
            ));
        }
        if !findings.is_empty() {
            break;
        }
        // (c) correct open, pre-creation choice flipped relative to creation: must change nothing
        let flip = rng.chance(1, 2);
        let sess = match Session::<K>::open(&root, config(n_create, rng.chance(3, 4), flip, true, true)) {
            Ok(s) => s,
            Err(e) => {
                findings.push(Finding::new(
                    &["C19"],
                    "correct open failed after rejected opens",
                    "reopen",
                    cassadilia_verif::session::err_chain(&e),
                ));
                break;
            }
        };
        history.push(Op::Reopen { flip_sync: false, pre_create: flip });
        let mut f2 = Vec::new();
        oracle::check_reads(sess.cas(), &mr.model, &probes, &mut rng, &mut f2);
        oracle::check_cas_exact(&root, &mr.model, &mut f2);
        for mut f in f2 {
            f.props = vec!["C19"];
            f.kind = format!("after gate probes: {}", f.kind);
            findings.push(f);
        }
        sess_opt = Some(sess);
        if !findings.is_empty() {
            break;
        }
    }
    drop(sess_opt);
    fsx::rm_rf(&root);
    rep.evaluations += 1;
    rep.count("rejected_opens", rejected);
    rep.count(&format!("n_create_{n_create}"), 1);
    let script = format!("{header}{}# probes: {}\n", enc_script(&history), log.join(" | "));
    if rejected > 0 {
        rep.distinct_case(script.as_bytes());
    }
    if rep.samples.len() < 3 {
        rep.sample(
            J::obj()
                .set("case", J::u(case))
                .set("n_create", J::s(n_create.to_string()))
                .set("probes", J::Arr(log.iter().take(12).map(|s| J::s(s.clone())).collect())),
        );
    }
    for f in findings {
        rep.violate(f, replay_json(p, case, &script));
    }
}

fn patch_version(orig: &str, v: u64) -> Option<String> {
    let i = orig.find("\"version\":")?;
    let rest = &orig[i + 10..];
    let end = rest.find(|c: char| c == ',' || c == '}')?;
    Some(format!("{}\"version\":{v}{}", &orig[..i], &rest[end..]))
}

#[allow(dead_code)]
fn unused(_: BTreeSet<u8>) {}
