//! concmon: small concurrent programs on one handle, run under the controlled scheduler
//! (seeded random / sticky schedules and a bounded-preemption systematic search) and in free
//! parallel mode, judged by: an invariant monitor at every decision point (C04, C06), a per-key
//! linearizability check of the client-boundary history (C05), quiescent exactness (C07), orphan
//! clean-up races (C08), abandoned transactions (C13), exact deadlock detection plus lock-order
//! graph (C15).
//!
//! usage: concmon --focus C04 --seed S --programs N [--thorough] [--program I --schedule D]
//!                [--out report.json]

use std::collections::{BTreeMap, BTreeSet};
use std::io::Read;
use std::path::PathBuf;
use std::sync::atomic::{AtomicU64, AtomicUsize, Ordering};
use std::sync::{Arc, Mutex};
use std::time::{Duration, Instant};

use cassadilia::{BlobHash, Cas, OrphanStats};
use cassadilia_verif::fsx;
use cassadilia_verif::json::{J, hex};
use cassadilia_verif::lin::{self, ABSENT, Action, LEvent, LinResult};
use cassadilia_verif::model::{Hash32, b3, rel_path_of};
use cassadilia_verif::ops::Content;
use cassadilia_verif::oracle::hash_of_rel_path;
use cassadilia_verif::report::{Args, Finding, Report};
use cassadilia_verif::rng::Rng;
use cassadilia_verif::sched::{self, Monitor, MonitorCtx, RunOutcome, Strategy, Work};
use cassadilia_verif::session::{config, err_chain};

const NONE: usize = usize::MAX;

#[derive(Clone, Debug, PartialEq)]
enum WOp {
    Put { key: usize, content: usize, two_chunks: bool },
    PutAbort { key: usize, content: usize },
    Get { key: usize },
    GetSize { key: usize },
    GetRange { key: usize, start: u64, end: u64 },
    /// open a reader now, drain it after the worker's remaining operations
    Reader { key: usize },
    Remove { key: usize },
    /// inclusive key index range
    RemoveRange { lo: usize, hi: usize },
    Checkpoint,
    OrphanDeleteAll,
    OrphanQuarantineAll,
    OrphanDeleteOne { content: usize },
}

impl WOp {
    fn enc(&self) -> String {
        match self {
            WOp::Put { key, content, two_chunks } => {
                format!("put k{key} c{content}{}", if *two_chunks { " chunked" } else { "" })
            }
            WOp::PutAbort { key, content } => format!("putabort k{key} c{content}"),
            WOp::Get { key } => format!("get k{key}"),
            WOp::GetSize { key } => format!("get_size k{key}"),
            WOp::GetRange { key, start, end } => format!("get_range k{key} {start} {end}"),
            WOp::Reader { key } => format!("get_reader k{key}"),
            WOp::Remove { key } => format!("remove k{key}"),
            WOp::RemoveRange { lo, hi } => format!("remove_range k{lo}..=k{hi}"),
            WOp::Checkpoint => "checkpoint".into(),
            WOp::OrphanDeleteAll => "delete_orphans".into(),
            WOp::OrphanQuarantineAll => "quarantine_orphans".into(),
            WOp::OrphanDeleteOne { content } => format!("delete_orphan c{content}"),
        }
    }
    fn is_read(&self) -> bool {
        matches!(self, WOp::Get { .. } | WOp::GetSize { .. } | WOp::GetRange { .. } | WOp::Reader { .. })
    }
}

#[derive(Clone, Debug)]
struct Program {
    id: u64,
    family: &'static str,
    n_ops: u64,
    contents: Vec<Content>,
    setup: Vec<(usize, usize)>,
    orphans: Vec<usize>,
    workers: Vec<Vec<WOp>>,
}

impl Program {
    fn text(&self) -> String {
        let mut s = format!(
            "# program {} family={} n_ops_per_wal={} contents={:?}\n",
            self.id,
            self.family,
            self.n_ops,
            self.contents.iter().map(|c| c.enc()).collect::<Vec<_>>()
        );
        for (k, c) in &self.setup {
            s.push_str(&format!("setup put k{k} c{c}\n"));
        }
        for c in &self.orphans {
            s.push_str(&format!("setup plant-orphan c{c}\n"));
        }
        for (i, w) in self.workers.iter().enumerate() {
            s.push_str(&format!(
                "worker {i}: {}\n",
                w.iter().map(|o| o.enc()).collect::<Vec<_>>().join("; ")
            ));
        }
        s
    }
}

const N_KEYS: usize = 3;

fn key_name(i: usize) -> String {
    format!("k{i}")
}

fn gen_program(seed: u64, id: u64, focus: &str, thorough: bool) -> Program {
    let mut rng = Rng::derive(seed ^ 0xC0C0, id);
    let family: &'static str = match focus {
        "C05" => *rng.pick(&["readwrite", "readwrite", "read-vs-rewrites", "writers", "write-then-read"]),
        // clean-up of reported orphans is one more party that unlinks blobs while commits run
        "C04" => *rng.pick(&["writers", "writers", "writers", "mixed", "orphans"]),
        "C17" => "readwrite",
        "C06" => *rng.pick(&["readwrite", "writers", "readers-long"]),
        "C07" => *rng.pick(&["writers", "writers", "abort"]),
        "C12" => *rng.pick(&["checkpointing", "checkpointing", "writers"]),
        "C18" => *rng.pick(&["writers", "writers", "write-then-read"]),
        "C08" => "orphans",
        "C13" => "abort",
        "C15" => *rng.pick(&["writers", "readwrite", "orphans", "mixed", "mixed"]),
        _ => *rng.pick(&["writers", "writers", "writers", "mixed"]),
    };
    let n_ops = *rng.pick(&[1u64, 2, 1000, 1000]);
    // three contents with distinct lengths (>= 8, so every read identifies its writer)
    let big = rng.chance(1, 6);
    let contents = vec![
        Content::new(11, 24),
        Content::new(22, 40),
        Content::new(33, if big { 9000 } else { 56 }),
    ];
    let mut setup = Vec::new();
    let preset = rng.range(0, 2) as usize;
    for k in 0..preset.min(N_KEYS) {
        // shared content is likely
        let c = if rng.chance(1, 2) { 0 } else { rng.usize(3) };
        setup.push((k, c));
    }
    let mut orphans = Vec::new();
    if family == "orphans" || (family == "mixed" && rng.chance(1, 3)) {
        orphans.push(rng.usize(3));
        if rng.chance(1, 3) {
            let o = rng.usize(3);
            if !orphans.contains(&o) {
                orphans.push(o);
            }
        }
        // an orphan must not be referenced at scan time
        setup.retain(|(_, c)| !orphans.contains(c));
    }
    let n_workers = match family {
        "orphans" => 2 + usize::from(rng.chance(1, 3)),
        _ => 2 + usize::from(thorough && rng.chance(1, 3)) + usize::from(rng.chance(1, 4)),
    };
    let hot_key = rng.usize(2); // most ops target the same key
    let pick_key = |rng: &mut Rng| if rng.chance(2, 3) { hot_key } else { rng.usize(N_KEYS) };
    let cur = |setup: &Vec<(usize, usize)>, k: usize| setup.iter().find(|(kk, _)| *kk == k).map(|x| x.1);
    let mut workers: Vec<Vec<WOp>> = Vec::new();
    for w in 0..n_workers {
        let mut n = 1 + usize::from(rng.chance(1, 3)) + usize::from(thorough && rng.chance(1, 4));
        if family == "read-vs-rewrites" {
            n = if w == 0 { 1 } else { 3 };
        }
        if family == "write-then-read" {
            n = 2;
        }
        let mut ops = Vec::new();
        for _ in 0..n {
            let writer_op = |rng: &mut Rng, setup: &Vec<(usize, usize)>| -> WOp {
                match rng.below(10) {
                    0..=5 => {
                        let key = pick_key(rng);
                        // re-put the current content, a shared content, or anything
                        let content = match rng.below(3) {
                            0 => cur(setup, key).unwrap_or_else(|| rng.usize(3)),
                            _ => rng.usize(3),
                        };
                        WOp::Put { key, content, two_chunks: rng.chance(1, 4) }
                    }
                    6 | 7 => WOp::Remove { key: pick_key(rng) },
                    8 => {
                        let a = rng.usize(N_KEYS);
                        let b = rng.usize(N_KEYS);
                        WOp::RemoveRange { lo: a.min(b), hi: a.max(b) }
                    }
                    _ => WOp::Checkpoint,
                }
            };
            let range_heavy = focus == "C17";
            let reader_op = |rng: &mut Rng| -> WOp {
                let key = pick_key(rng);
                if range_heavy && rng.chance(3, 4) {
                    // ranged reads whose end lies beyond the shorter contents
                    return if rng.chance(1, 2) {
                        WOp::GetRange { key, start: 0, end: u64::MAX }
                    } else {
                        let start = rng.below(12);
                        WOp::GetRange { key, start, end: start + 20 + rng.below(9000) }
                    };
                }
                match rng.below(6) {
                    0 | 1 => WOp::Get { key },
                    2 => WOp::GetSize { key },
                    3 => {
                        // start <= end always: start > end is rejected by contract (C17), which
                        // would be an expected error, not a concurrency observation
                        let start = rng.below(16);
                        WOp::GetRange { key, start, end: start + rng.below(64) }
                    }
                    4 => WOp::GetRange { key, start: 0, end: u64::MAX },
                    _ => WOp::Reader { key },
                }
            };
            let op = match family {
                "read-vs-rewrites" => {
                    // one reader against a writer that replaces the key several times in a row:
                    // a read that retries must keep following the key through every replacement
                    if w == 0 {
                        match rng.below(3) {
                            0 => WOp::Get { key: hot_key },
                            1 => WOp::GetRange { key: hot_key, start: 0, end: u64::MAX },
                            _ => WOp::Reader { key: hot_key },
                        }
                    } else {
                        WOp::Put { key: hot_key, content: ops.len() % 3, two_chunks: false }
                    }
                }
                "writers" => writer_op(&mut rng, &setup),
                "write-then-read" => {
                    // every worker overwrites the hot key with its own content and then reads it:
                    // once its put has returned, the read shows that value or a later writer's,
                    // never the one from before
                    if ops.is_empty() {
                        WOp::Put { key: hot_key, content: w % 3, two_chunks: false }
                    } else {
                        match rng.below(4) {
                            0 => WOp::GetSize { key: hot_key },
                            1 => WOp::GetRange { key: hot_key, start: 0, end: u64::MAX },
                            2 => WOp::Reader { key: hot_key },
                            _ => WOp::Get { key: hot_key },
                        }
                    }
                }
                "checkpointing" => {
                    // explicit checkpoints against writers: the bookkeeping must come out exact
                    // wherever a mutation lands relative to the checkpoint's phases
                    if w == 0 {
                        WOp::Checkpoint
                    } else {
                        let mut op = writer_op(&mut rng, &setup);
                        while matches!(op, WOp::Checkpoint) {
                            op = writer_op(&mut rng, &setup);
                        }
                        op
                    }
                }
                "readwrite" => {
                    if w == 0 || (w == 2 && rng.chance(1, 2)) {
                        writer_op(&mut rng, &setup)
                    } else {
                        reader_op(&mut rng)
                    }
                }
                "readers-long" => {
                    if w == 0 {
                        writer_op(&mut rng, &setup)
                    } else {
                        WOp::Reader { key: pick_key(&mut rng) }
                    }
                }
                "abort" => {
                    if w == 0 {
                        WOp::PutAbort { key: pick_key(&mut rng), content: rng.usize(3) }
                    } else if rng.chance(2, 3) {
                        writer_op(&mut rng, &setup)
                    } else {
                        reader_op(&mut rng)
                    }
                }
                "orphans" => {
                    if w == 0 {
                        match rng.below(4) {
                            0 | 1 => WOp::OrphanDeleteAll,
                            2 => WOp::OrphanQuarantineAll,
                            _ => WOp::OrphanDeleteOne { content: orphans[0] },
                        }
                    } else if rng.chance(2, 3) {
                        // commit the very content that is lying around as an orphan
                        WOp::Put { key: pick_key(&mut rng), content: *rng.pick(&orphans), two_chunks: false }
                    } else {
                        writer_op(&mut rng, &setup)
                    }
                }
                _ => match rng.below(10) {
                    0..=5 => writer_op(&mut rng, &setup),
                    6 | 7 => reader_op(&mut rng),
                    8 => WOp::PutAbort { key: pick_key(&mut rng), content: rng.usize(3) },
                    _ => {
                        if orphans.is_empty() {
                            WOp::Checkpoint
                        } else {
                            WOp::OrphanDeleteAll
                        }
                    }
                },
            };
            ops.push(op);
        }
        workers.push(ops);
    }
    // without an orphan set the orphan operations are meaningless
    if orphans.is_empty() {
        for w in &mut workers {
            for op in w.iter_mut() {
                if matches!(op, WOp::OrphanDeleteAll | WOp::OrphanQuarantineAll | WOp::OrphanDeleteOne { .. }) {
                    *op = WOp::Checkpoint;
                }
            }
        }
    }
    Program { id, family, n_ops, contents, setup, orphans, workers }
}

#[derive(Clone, Debug)]
enum Res {
    Unit,
    Bool(bool),
    Count(usize),
    Absent,
    Bytes(Vec<u8>),
    Size(u64),
    Orphan { deleted: usize, quarantined: usize, skipped: usize, errors: usize },
    Err(String),
}

#[derive(Clone, Debug)]
struct Rec {
    worker: usize,
    op: WOp,
    call: u64,
    ret: u64,
    res: Res,
    /// for Reader: the bytes drained later
    drained: Option<Result<Vec<u8>, String>>,
}

struct Ctx {
    cas: Cas<String>,
    stats: Option<OrphanStats<String>>,
    root: PathBuf,
    quarantine: PathBuf,
    clock: AtomicU64,
    contents: Vec<Vec<u8>>,
    hashes: Vec<Hash32>,
    /// per worker: content index of the put whose finish() is running
    committing: Vec<AtomicUsize>,
    recs: Mutex<Vec<Rec>>,
}

fn exec_worker(ctx: &Arc<Ctx>, w: usize, ops: &[WOp]) {
    let mut readers: Vec<(usize, std::io::BufReader<std::fs::File>)> = Vec::new();
    let mut local: Vec<Rec> = Vec::new();
    for op in ops {
        let call = ctx.clock.fetch_add(1, Ordering::SeqCst);
        let res = match op {
            WOp::Put { key, content, two_chunks } => {
                let data = &ctx.contents[*content];
                (|| -> Result<(), String> {
                    let mut tx = ctx.cas.put(key_name(*key)).map_err(|e| err_chain(&e))?;
                    if *two_chunks {
                        let mid = data.len() / 2;
                        tx.write(&data[..mid]).map_err(|e| err_chain(&e))?;
                        tx.write(&data[mid..]).map_err(|e| err_chain(&e))?;
                    } else {
                        tx.write(data).map_err(|e| err_chain(&e))?;
                    }
                    ctx.committing[w].store(*content, Ordering::SeqCst);
                    let r = tx.finish().map_err(|e| err_chain(&e));
                    ctx.committing[w].store(NONE, Ordering::SeqCst);
                    r
                })()
                .map_or_else(Res::Err, |()| Res::Unit)
            }
            WOp::PutAbort { key, content } => {
                let data = &ctx.contents[*content];
                match ctx.cas.put(key_name(*key)) {
                    Ok(mut tx) => {
                        let r = tx.write(data).map_err(|e| err_chain(&e));
                        sched::client_point("client:abort_before_drop");
                        drop(tx);
                        r.map_or_else(Res::Err, |()| Res::Unit)
                    }
                    Err(e) => Res::Err(err_chain(&e)),
                }
            }
            WOp::Get { key } => match ctx.cas.get(&key_name(*key)) {
                Ok(None) => Res::Absent,
                Ok(Some(b)) => Res::Bytes(b.to_vec()),
                Err(e) => Res::Err(err_chain(&e)),
            },
            WOp::GetSize { key } => match ctx.cas.get_size(&key_name(*key)) {
                Ok(None) => Res::Absent,
                Ok(Some(s)) => Res::Size(s),
                Err(e) => Res::Err(err_chain(&e)),
            },
            WOp::GetRange { key, start, end } => match ctx.cas.get_range(&key_name(*key), *start, *end) {
                Ok(None) => Res::Absent,
                Ok(Some(b)) => Res::Bytes(b.to_vec()),
                Err(e) => Res::Err(err_chain(&e)),
            },
            WOp::Reader { key } => match ctx.cas.get_reader(&key_name(*key)) {
                Ok(None) => Res::Absent,
                Ok(Some(r)) => {
                    readers.push((local.len(), r));
                    Res::Unit
                }
                Err(e) => Res::Err(err_chain(&e)),
            },
            WOp::Remove { key } => match ctx.cas.remove(&key_name(*key)) {
                Ok(b) => Res::Bool(b),
                Err(e) => Res::Err(err_chain(&e)),
            },
            WOp::RemoveRange { lo, hi } => match ctx.cas.remove_range(key_name(*lo)..=key_name(*hi)) {
                Ok(c) => Res::Count(c),
                Err(e) => Res::Err(err_chain(&e)),
            },
            WOp::Checkpoint => match ctx.cas.checkpoint() {
                Ok(()) => Res::Unit,
                Err(e) => Res::Err(err_chain(&e)),
            },
            WOp::OrphanDeleteAll => match ctx.stats.as_ref().map(|s| s.delete_orphans()) {
                Some(Ok(r)) => Res::Orphan {
                    deleted: r.orphans_deleted,
                    quarantined: 0,
                    skipped: r.orphans_skipped,
                    errors: r.errors.len(),
                },
                Some(Err(e)) => Res::Err(err_chain(&e)),
                None => Res::Unit,
            },
            WOp::OrphanQuarantineAll => {
                match ctx.stats.as_ref().map(|s| s.quarantine_orphans(&ctx.quarantine)) {
                    Some(Ok(r)) => Res::Orphan {
                        deleted: 0,
                        quarantined: r.orphans_quarantined,
                        skipped: r.orphans_skipped,
                        errors: r.errors.len(),
                    },
                    Some(Err(e)) => Res::Err(err_chain(&e)),
                    None => Res::Unit,
                }
            }
            WOp::OrphanDeleteOne { content } => {
                match ctx.stats.as_ref().map(|s| s.delete_orphan(&BlobHash(ctx.hashes[*content]))) {
                    Some(Ok(b)) => Res::Bool(b),
                    Some(Err(e)) => Res::Err(err_chain(&e)),
                    None => Res::Unit,
                }
            }
        };
        let ret = ctx.clock.fetch_add(1, Ordering::SeqCst);
        local.push(Rec { worker: w, op: op.clone(), call, ret, res, drained: None });
        sched::mark_op_end();
        sched::client_point("client:between_ops");
    }
    // drain long-lived readers only now: whatever happened to the key meanwhile, the stream
    // must be one complete value
    for (idx, mut r) in readers {
        let mut buf = Vec::new();
        let d = r.read_to_end(&mut buf).map(|_| buf).map_err(|e| e.to_string());
        local[idx].drained = Some(d);
    }
    ctx.recs.lock().unwrap().extend(local);
}

/// The invariant monitor run at every decision point (serial mode) or by the observer thread
/// (free mode): while holding the index read guard, every referenced blob exists with the
/// recorded size and bytes; every in-flight commit past its rename still has its blob; every
/// file under cas/ holds the bytes its path names.
fn invariants(ctx: &Ctx, state_write_held: bool, renamed: &[bool]) -> Vec<(String, String)> {
    let mut out = Vec::new();
    let cas_dir = ctx.root.join("cas");
    if !state_write_held {
        let g = ctx.cas.read_index_state();
        for (k, item) in g.iter() {
            // identity: what a key records is (BLAKE3, length) of ONE content some put wrote
            if !ctx.hashes.iter().zip(&ctx.contents).any(|(h, c)| *h == item.blob_hash.0 && c.len() as u64 == item.blob_size) {
                out.push((
                    "C18|a visible key records a hash and a size that belong to no single content the program wrote".to_string(),
                    format!("key {k} -> {} with size {}", item.blob_hash, item.blob_size),
                ));
            }
            let p = cas_dir.join(rel_path_of(&item.blob_hash.0));
            match std::fs::read(&p) {
                Ok(b) => {
                    if b.len() as u64 != item.blob_size || b3(&b) != item.blob_hash.0 {
                        out.push((
                            "C04|a visible key references a blob file with wrong bytes".to_string(),
                            format!("key {k} -> {} ({} bytes): file has {} bytes", item.blob_hash, item.blob_size, b.len()),
                        ));
                    }
                }
                Err(e) => out.push((
                    "C04|a visible key references a blob file that does not exist".to_string(),
                    format!("key {k} -> {} : {e}", item.blob_hash),
                )),
            }
        }
        drop(g);
    }
    for (w, r) in renamed.iter().enumerate() {
        if *r {
            let c = ctx.committing[w].load(Ordering::SeqCst);
            if c != NONE {
                let p = cas_dir.join(rel_path_of(&ctx.hashes[c]));
                if !p.exists() {
                    out.push((
                        "C04|the blob of an in-flight commit was deleted between its rename and its index update".to_string(),
                        format!("worker {w} committing c{c} ({})", &hex(&ctx.hashes[c])[..12]),
                    ));
                }
            }
        }
    }
    for rel in fsx::files_rec(&cas_dir) {
        if let Some(h) = hash_of_rel_path(&rel)
            && let Ok(b) = std::fs::read(cas_dir.join(&rel))
            && b3(&b) != h
        {
            out.push((
                "C06|a file under cas/ does not hold the bytes its path names".to_string(),
                format!("{rel}: {} bytes", b.len()),
            ));
        }
    }
    out
}

struct Prepared {
    ctx: Arc<Ctx>,
    base: PathBuf,
}

fn prepare(prog: &Program) -> Result<Prepared, String> {
    let base = fsx::fresh_path("conc");
    std::fs::create_dir_all(&base).map_err(|e| e.to_string())?;
    let root = base.join("db");
    let contents: Vec<Vec<u8>> = prog.contents.iter().map(|c| c.bytes()).collect();
    let hashes: Vec<Hash32> = contents.iter().map(|c| b3(c)).collect();
    let cfg = config(prog.n_ops, true, false, true, false);
    let cas = Cas::<String>::open(&root, cfg.clone()).map_err(|e| err_chain(&e))?;
    for (k, c) in &prog.setup {
        let mut tx = cas.put(key_name(*k)).map_err(|e| err_chain(&e))?;
        tx.write(&contents[*c]).map_err(|e| err_chain(&e))?;
        tx.finish().map_err(|e| err_chain(&e))?;
    }
    let (cas, stats) = if prog.orphans.is_empty() {
        (cas, None)
    } else {
        drop(cas);
        for c in &prog.orphans {
            let p = root.join("cas").join(rel_path_of(&hashes[*c]));
            std::fs::create_dir_all(p.parent().unwrap()).map_err(|e| e.to_string())?;
            std::fs::write(&p, &contents[*c]).map_err(|e| e.to_string())?;
        }
        let (cas, stats) = Cas::<String>::open_with_recover(&root, cfg).map_err(|e| err_chain(&e))?;
        (cas, stats)
    };
    let n = prog.workers.len();
    let ctx = Arc::new(Ctx {
        cas,
        stats,
        root,
        quarantine: base.join("quarantine"),
        clock: AtomicU64::new(1),
        contents,
        hashes,
        committing: (0..n).map(|_| AtomicUsize::new(NONE)).collect(),
        recs: Mutex::new(Vec::new()),
    });
    Ok(Prepared { ctx, base })
}

#[derive(Default)]
struct RunFeatures {
    unlink_in_commit_window: bool,
    read_overlapped: bool,
    orphan_vs_commit: bool,
    abort_overlapped: bool,
    contention: bool,
    two_writers_same_key: bool,
}

fn features(prog: &Program, out: &RunOutcome) -> RunFeatures {
    let mut f = RunFeatures::default();
    let n = prog.workers.len();
    let mut renamed = vec![false; n];
    let mut in_read = vec![false; n];
    let mut in_abort = vec![false; n];
    let mut committing = vec![false; n];
    for (w, ev) in &out.events {
        let w = *w;
        if w >= n {
            continue;
        }
        // any event of another worker while w sits between lookup and open
        for r in 0..n {
            if r != w && in_read[r] && (ev.starts_with("cas:") || ev.starts_with("apply")) {
                f.read_overlapped = true;
            }
            if r != w && in_abort[r] {
                f.abort_overlapped = true;
            }
        }
        in_read[w] = false;
        match ev.as_str() {
            "commit:after_sync" => committing[w] = true,
            "commit:after_rename" => renamed[w] = true,
            "apply_put:after_apply" => renamed[w] = false,
            "client:between_ops" => {
                renamed[w] = false;
                committing[w] = false;
                in_abort[w] = false;
            }
            "client:abort_before_drop" => in_abort[w] = true,
            "read:after_lookup" => in_read[w] = true,
            "cas:before_unlink" => {
                if (0..n).any(|o| o != w && renamed[o]) {
                    f.unlink_in_commit_window = true;
                }
            }
            "orphan:before_delete" | "orphan:before_quarantine" | "orphan:before_delete_one" => {
                if (0..n).any(|o| o != w && committing[o]) {
                    f.orphan_vs_commit = true;
                }
            }
            "blocked" => f.contention = true,
            _ => {}
        }
    }
    let mut writers_per_key: BTreeMap<usize, BTreeSet<usize>> = BTreeMap::new();
    for (w, ops) in prog.workers.iter().enumerate() {
        for op in ops {
            if let WOp::Put { key, .. } | WOp::Remove { key } = op {
                writers_per_key.entry(*key).or_default().insert(w);
            }
        }
    }
    f.two_writers_same_key = writers_per_key.values().any(|s| s.len() >= 2);
    f
}

fn schedule_desc(s: &Strategy) -> String {
    match s {
        Strategy::Random { seed } => format!("random:{seed}"),
        Strategy::Sticky { seed, stay } => format!("sticky:{seed}:{stay}"),
        Strategy::Prefix { prefix } => {
            format!("prefix:{}", prefix.iter().map(|x| x.to_string()).collect::<Vec<_>>().join(","))
        }
        // the site itself contains ':' - it is everything after the first one
        Strategy::Stall { site } => format!("stall:{site}"),
    }
}

/// Sites of the delay-site sweep: every named hook point and every lock acquisition.
const STALL_SITES: &[&str] = &[
    "read:after_lookup",
    "commit:after_sync",
    "cas:before_rename",
    "commit:after_rename",
    "apply_put:after_apply",
    "apply_remove:after_apply",
    "cas:before_unlink",
    "apply:after_release",
    "remove:after_scan",
    "remove_range:after_scan",
    "checkpoint:before_persist",
    "checkpoint:before_prune",
    "orphan:before_delete",
    "orphan:before_quarantine",
    "orphan:before_delete_one",
    "client:abort_before_drop",
    "lock:intents:x",
    "lock:state:x",
    "lock:state:r",
    "lock:wal:x",
];

fn parse_schedule(s: &str) -> Option<Strategy> {
    if let Some(site) = s.strip_prefix("stall:") {
        return Some(Strategy::Stall { site: site.to_string() });
    }
    let parts: Vec<&str> = s.split(':').collect();
    match parts.first().copied()? {
        "random" => Some(Strategy::Random { seed: parts.get(1)?.parse().ok()? }),
        "sticky" => Some(Strategy::Sticky { seed: parts.get(1)?.parse().ok()?, stay: parts.get(2)?.parse().ok()? }),
        "prefix" => {
            let p = parts.get(1).copied().unwrap_or("");
            let prefix = if p.is_empty() { vec![] } else { p.split(',').map(|x| x.parse().ok()).collect::<Option<Vec<usize>>>()? };
            Some(Strategy::Prefix { prefix })
        }
        _ => None,
    }
}

struct Judged {
    findings: Vec<Finding>,
    outcome: RunOutcome,
    feats: RunFeatures,
    fatal: bool,
}

fn value_id(ctx: &Ctx, bytes: &[u8]) -> Option<u64> {
    ctx.contents.iter().position(|c| c.as_slice() == bytes).map(|i| i as u64 + 1)
}

/// Which complete value is `slice` the [start, end) part of? (contents have distinct tags)
/// Every value of which `slice` is exactly the [start, end) part. A short slice (e.g. one byte
/// of a block index) can belong to several contents: the read then identifies a SET of writers.
fn values_of_slice(ctx: &Ctx, slice: &[u8], start: u64, end: u64) -> Vec<u64> {
    let mut out = Vec::new();
    for (i, c) in ctx.contents.iter().enumerate() {
        let l = c.len() as u64;
        if start >= l {
            continue;
        }
        let e = end.min(l);
        if e >= start && &c[start as usize..e as usize] == slice {
            out.push(i as u64 + 1);
        }
    }
    out
}

fn run_and_judge(prog: &Program, strategy: Strategy, serial: bool, focus: &str) -> Result<Judged, String> {
    let prep = prepare(prog)?;
    let ctx = prep.ctx.clone();
    let mut works: Vec<Work> = Vec::new();
    for (w, ops) in prog.workers.iter().enumerate() {
        let c = ctx.clone();
        let ops = ops.clone();
        works.push(Box::new(move || exec_worker(&c, w, &ops)));
    }
    let mon_ctx = ctx.clone();
    let monitor: Option<Monitor> = if serial {
        Some(Box::new(move |m: &MonitorCtx| {
            let mut f = invariants(&mon_ctx, m.state_write_held, m.renamed);
            for x in &mut f {
                x.1 = format!("at worker {} event {}: {}", m.worker, m.event, x.1);
            }
            f
        }))
    } else {
        None
    };
    // free mode: an observer thread checks the invariant continuously
    let stop = Arc::new(std::sync::atomic::AtomicBool::new(false));
    let observer = if !serial {
        let c = ctx.clone();
        let st = stop.clone();
        Some(std::thread::spawn(move || {
            let mut found = Vec::new();
            let mut rounds = 0u64;
            while !st.load(Ordering::SeqCst) {
                let none: Vec<bool> = Vec::new();
                found.extend(invariants(&c, false, &none));
                rounds += 1;
                if found.len() > 10 {
                    break;
                }
            }
            (found, rounds)
        }))
    } else {
        None
    };
    let jitter = if serial { 0 } else { 40 };
    let outcome = sched::run(works, serial, strategy, monitor, jitter, Duration::from_secs(20));
    stop.store(true, Ordering::SeqCst);
    let mut findings: Vec<Finding> = Vec::new();
    let mut observer_rounds = 0;
    let mut hook_findings = outcome.hook_findings.clone();
    if let Some(h) = observer
        && let Ok((f, rounds)) = h.join()
    {
        observer_rounds = rounds;
        hook_findings.extend(f);
    }
    let _ = observer_rounds;
    let has_orphan_ops = prog.workers.iter().flatten().any(|o| {
        matches!(o, WOp::OrphanDeleteAll | WOp::OrphanQuarantineAll | WOp::OrphanDeleteOne { .. })
    });
    for (kind, detail) in &hook_findings {
        if kind == "harness panicked" {
            findings.push(Finding::new(&[], "lin-inconclusive", "harness panic", detail.clone()));
            continue;
        }
        if kind == "worker panicked" {
            findings.push(Finding::new(
                &[focus_static(focus)],
                "a worker thread panicked inside the store",
                "panic",
                detail.clone(),
            ));
            continue;
        }
        let (prop, text) = kind.split_once('|').unwrap_or(("C04", kind));
        let mut props: Vec<&'static str> = vec![focus_static(prop)];
        if has_orphan_ops && prop == "C04" {
            props.push("C08");
        }
        findings.push(Finding::new(&props, text, "invariant at a decision point", detail.clone()));
    }
    let feats = features(prog, &outcome);
    if let Some(d) = &outcome.deadlock {
        findings.push(Finding::new(&["C15"], "deadlock: every unfinished worker is parked on a lock", "deadlock", d.clone()));
        return Ok(Judged { findings, outcome, feats, fatal: true });
    }
    if let Some(l) = &outcome.livelock {
        // bounded progress (C15); if the stuck worker is inside a read, that read "never returns"
        let in_read = l.contains("read:after_lookup");
        let props: &[&'static str] = if in_read { &["C15", "C05"] } else { &["C15"] };
        findings.push(Finding::new(
            props,
            "no progress: a call keeps running without ever returning (livelock)",
            if in_read { "read retry loop" } else { "livelock" },
            l.clone(),
        ));
        return Ok(Judged { findings, outcome, feats, fatal: true });
    }
    if outcome.watchdog {
        return Ok(Judged { findings, outcome, feats, fatal: true });
    }

    // ---- client-boundary history
    let recs: Vec<Rec> = std::mem::take(&mut *ctx.recs.lock().unwrap());
    let mut any_error = false;
    for r in &recs {
        if let Res::Err(e) = &r.res {
            any_error = true;
            if r.op.is_read() {
                findings.push(Finding::new(
                    &["C05"],
                    &format!("a read failed in a fault-free run: {}", class_of_err(e)),
                    "read under concurrency",
                    format!("worker {} {}: {e}", r.worker, r.op.enc()),
                ));
            } else {
                findings.push(Finding::new(
                    &["C04"],
                    &format!("a write operation failed in a fault-free run: {}", class_of_err(e)),
                    "write under concurrency",
                    format!("worker {} {}: {e}", r.worker, r.op.enc()),
                ));
            }
        }
        if let (WOp::Reader { key }, Some(d)) = (&r.op, &r.drained) {
            match d {
                Ok(bytes) => {
                    if value_id(&ctx, bytes).is_none() {
                        findings.push(Finding::new(
                            &["C05", "C06"],
                            "a long-lived reader streamed bytes that are no complete committed value",
                            "reader drained after later operations",
                            format!("worker {} get_reader k{key}: {} bytes", r.worker, bytes.len()),
                        ));
                    }
                }
                Err(e) => findings.push(Finding::new(
                    &["C05", "C06"],
                    "a long-lived reader failed while streaming",
                    "reader drained after later operations",
                    format!("worker {} get_reader k{key}: {e}", r.worker),
                )),
            }
        }
    }

    // ---- final quiescent state
    let final_clock = ctx.clock.load(Ordering::SeqCst) + 10;
    let mut final_vals: Vec<u64> = vec![ABSENT; N_KEYS];
    for k in 0..N_KEYS {
        match ctx.cas.get(&key_name(k)) {
            Ok(None) => {}
            Ok(Some(b)) => match value_id(&ctx, &b) {
                Some(v) => final_vals[k] = v,
                None => findings.push(Finding::new(
                    &["C04", "C05"],
                    "a key finally holds bytes nobody wrote to it",
                    "quiescent read",
                    format!("k{k}: {} bytes", b.len()),
                )),
            },
            Err(e) => {
                let mut props: Vec<&'static str> = vec!["C04"];
                if has_orphan_ops {
                    props.push("C08");
                }
                findings.push(Finding::new(
                    &props,
                    &format!("a key is unreadable at quiescence: {}", class_of_err(&err_chain(&e))),
                    "quiescent read",
                    format!("k{k}: {}", err_chain(&e)),
                ));
                final_vals[k] = u64::MAX;
            }
        }
    }

    // ---- linearizability per key
    let mut initial = vec![ABSENT; N_KEYS];
    for (k, c) in &prog.setup {
        initial[*k] = *c as u64 + 1;
    }
    for k in 0..N_KEYS {
        if final_vals[k] == u64::MAX {
            continue;
        }
        let mut evs: Vec<LEvent> = Vec::new();
        for r in &recs {
            let d = format!("w{} {}", r.worker, r.op.enc());
            match (&r.op, &r.res) {
                (WOp::Put { key, content, .. }, Res::Unit) if *key == k => {
                    evs.push(LEvent::single(r.call, r.ret, Action::Write(*content as u64 + 1), d));
                }
                (WOp::Put { key, content, .. }, Res::Err(_)) if *key == k => {
                    // failed write: may or may not have taken effect
                    evs.push(LEvent {
                        call: r.call,
                        ret: r.ret,
                        alts: vec![vec![Action::Nop], vec![Action::Write(*content as u64 + 1)]],
                        desc: format!("{d} = error"),
                    });
                }
                (WOp::Get { key }, Res::Absent) | (WOp::GetSize { key }, Res::Absent) | (WOp::GetRange { key, .. }, Res::Absent) | (WOp::Reader { key }, Res::Absent)
                    if *key == k =>
                {
                    evs.push(LEvent::single(r.call, r.ret, Action::ExpectEq(ABSENT), format!("{d} = absent")));
                }
                (WOp::Get { key }, Res::Bytes(b)) if *key == k => match value_id(&ctx, b) {
                    Some(v) => evs.push(LEvent::single(r.call, r.ret, Action::ExpectEq(v), format!("{d} = c{}", v - 1))),
                    None => findings.push(Finding::new(
                        &["C05"],
                        "get returned bytes that are no complete committed value",
                        "read under concurrency",
                        format!("{d}: {} bytes", b.len()),
                    )),
                },
                (WOp::GetSize { key }, Res::Size(s)) if *key == k => {
                    match ctx.contents.iter().position(|c| c.len() as u64 == *s) {
                        Some(i) => evs.push(LEvent::single(r.call, r.ret, Action::ExpectEq(i as u64 + 1), format!("{d} = {s}"))),
                        None => findings.push(Finding::new(
                            &["C05"],
                            "get_size returned a size no committed value has",
                            "read under concurrency",
                            format!("{d}: {s}"),
                        )),
                    }
                }
                (WOp::GetRange { key, start, end }, Res::Bytes(b)) if *key == k => {
                    if b.is_empty() {
                        evs.push(LEvent::single(r.call, r.ret, Action::ExpectPresent, format!("{d} = empty")));
                    } else {
                        match values_of_slice(&ctx, b, *start, *end).as_slice() {
                            [v] => evs.push(LEvent::single(r.call, r.ret, Action::ExpectEq(*v), format!("{d} = slice of c{}", v - 1))),
                            vs if !vs.is_empty() => evs.push(LEvent {
                                call: r.call,
                                ret: r.ret,
                                alts: vs.iter().map(|v| vec![Action::ExpectEq(*v)]).collect(),
                                desc: format!("{d} = slice shared by {:?}", vs.iter().map(|v| format!("c{}", v - 1)).collect::<Vec<_>>()),
                            }),
                            _ => findings.push(Finding::new(
                                &["C05", "C17"],
                                "get_range returned bytes that are no slice of a committed value",
                                "read under concurrency",
                                format!("{d}: {} bytes", b.len()),
                            )),
                        }
                    }
                }
                (WOp::Reader { key }, Res::Unit) if *key == k => {
                    if let Some(Ok(bytes)) = &r.drained
                        && let Some(v) = value_id(&ctx, bytes)
                    {
                        evs.push(LEvent::single(r.call, r.ret, Action::ExpectEq(v), format!("{d} streamed c{}", v - 1)));
                    }
                }
                (WOp::Remove { key }, Res::Bool(true)) if *key == k => evs.push(lin::remove_true(r.call, r.ret, format!("{d} = true"))),
                (WOp::Remove { key }, Res::Bool(false)) if *key == k => evs.push(lin::remove_false(r.call, r.ret, format!("{d} = false"))),
                (WOp::Remove { key }, Res::Err(_)) if *key == k => evs.push(LEvent {
                    call: r.call,
                    ret: r.ret,
                    alts: vec![vec![Action::Nop], vec![Action::Write(ABSENT)]],
                    desc: format!("{d} = error"),
                }),
                (WOp::RemoveRange { lo, hi }, Res::Count(_)) if *lo <= k && k <= *hi => {
                    evs.push(lin::remove_maybe(r.call, r.ret, d));
                }
                (WOp::RemoveRange { lo, hi }, Res::Err(_)) if *lo <= k && k <= *hi => evs.push(LEvent {
                    call: r.call,
                    ret: r.ret,
                    alts: vec![vec![Action::Nop], vec![Action::Write(ABSENT)]],
                    desc: format!("{d} = error"),
                }),
                _ => {}
            }
        }
        evs.push(LEvent::single(
            final_clock,
            final_clock + 1,
            Action::ExpectEq(final_vals[k]),
            format!("final read k{k} = {}", if final_vals[k] == 0 { "absent".to_string() } else { format!("c{}", final_vals[k] - 1) }),
        ));
        if evs.len() > 1 {
            match lin::check_key(initial[k], &evs, 2_000_000) {
                LinResult::Ok => {}
                LinResult::Violation(v) => findings.push(Finding::new(
                    &["C05"],
                    "history of a key is not linearizable",
                    "client-boundary history",
                    format!("k{k}: {v}"),
                )),
                LinResult::Inconclusive => {
                    findings.push(Finding::new(&[], "lin-inconclusive", "lin", format!("k{k}")));
                }
            }
        }
    }

    // ---- quiescent exactness (only when nothing failed)
    if !any_error {
        let g = ctx.cas.read_index_state();
        let referenced: BTreeSet<String> = g.iter().map(|(_, i)| rel_path_of(&i.blob_hash.0)).collect();
        let counts: BTreeMap<Hash32, u32> = g.known_blobs().map(|(h, c)| (h.0, *c)).collect();
        let mut want_counts: BTreeMap<Hash32, u32> = BTreeMap::new();
        for (_, i) in g.iter() {
            *want_counts.entry(i.blob_hash.0).or_insert(0) += 1;
        }
        drop(g);
        if counts != want_counts {
            findings.push(Finding::new(
                &["C12"],
                "reference counts differ from the number of keys per blob after a concurrent run",
                "quiescent counts",
                format!("{} blobs known, {} referenced", counts.len(), want_counts.len()),
            ));
        }
        // statistics agree with the index they describe
        let (st, want_unique, want_bytes) = {
            let g = ctx.cas.read_index_state();
            let mut sizes: BTreeMap<Hash32, u64> = BTreeMap::new();
            for (_, i) in g.iter() {
                sizes.insert(i.blob_hash.0, i.blob_size);
            }
            (g.stats(), sizes.len() as u64, sizes.values().sum::<u64>())
        };
        if st.cas.unique_blobs != want_unique || st.cas.total_bytes != want_bytes {
            findings.push(Finding::new(
                &["C12"],
                "statistics differ from the index contents after a concurrent run",
                "quiescent stats",
                format!(
                    "index holds {want_unique} distinct contents / {want_bytes} bytes; stats say {} / {}",
                    st.cas.unique_blobs, st.cas.total_bytes
                ),
            ));
        }
        if ctx.cas.stats() != st {
            findings.push(Finding::new(&["C12"], "stats() and guard.stats() disagree at quiescence", "quiescent stats", String::new()));
        }
        let on_disk: BTreeSet<String> = fsx::files_rec(&ctx.root.join("cas")).into_iter().collect();
        if on_disk != referenced {
            let extra: Vec<&String> = on_disk.difference(&referenced).collect();
            let missing: Vec<&String> = referenced.difference(&on_disk).collect();
            // an orphan that clean-up was never asked to remove, or legitimately skipped, may stay
            let planted: BTreeSet<String> = prog.orphans.iter().map(|c| rel_path_of(&ctx.hashes[*c])).collect();
            let extra_unexplained: Vec<&&String> = extra.iter().filter(|e| !planted.contains(**e)).collect();
            if !missing.is_empty() {
                findings.push(Finding::new(
                    &["C07", "C04"],
                    "cas/ lacks the file of a referenced content at quiescence",
                    "quiescent listing",
                    format!("missing {missing:?}"),
                ));
            }
            if !extra_unexplained.is_empty() {
                findings.push(Finding::new(
                    &["C07"],
                    "cas/ holds a file no key references at quiescence",
                    "quiescent listing",
                    format!("extra {extra_unexplained:?}"),
                ));
            }
        }
        let staging = fsx::files_rec(&ctx.root.join("staging"));
        if !staging.is_empty() {
            findings.push(Finding::new(
                &["C07", "C13"],
                "staging/ not empty at quiescence",
                "quiescent listing",
                format!("{staging:?}"),
            ));
        }
    }
    // ---- abandoned transactions leave no trace: handled by linearizability (no-op) and listing
    // ---- orphan clean-up results
    let n_orph = ctx.stats.as_ref().map(|s| s.orphaned_blobs.len()).unwrap_or(0);
    for r in &recs {
        if let Res::Orphan { deleted, quarantined, skipped, errors } = &r.res {
            if deleted + quarantined + skipped + errors != n_orph {
                findings.push(Finding::new(
                    &["C08"],
                    "clean-up result does not account for every reported orphan",
                    "orphan clean-up under concurrency",
                    format!("{n_orph} orphans reported; deleted {deleted} quarantined {quarantined} skipped {skipped} errors {errors}"),
                ));
            }
            if *errors > 0 {
                findings.push(Finding::new(&["C08"], "clean-up reported errors", "orphan clean-up under concurrency", format!("{errors}")));
            }
        }
    }
    // ---- the files on disk, read by the independent decoder, equal the final index (C20)
    if !any_error {
        match cassadilia_verif::disk::decode_db(&ctx.root, prog.n_ops) {
            Ok(st) => {
                let g = ctx.cas.read_index_state();
                let want: BTreeMap<Vec<u8>, (Hash32, u64)> =
                    g.iter().map(|(k, i)| (k.as_bytes().to_vec(), (i.blob_hash.0, i.blob_size))).collect();
                drop(g);
                if st.map != want {
                    findings.push(Finding::new(
                        &["C20", "C02"],
                        "after a concurrent history snapshot plus log decode to a state other than the index",
                        "decode at quiescence",
                        format!("decoded {} keys (snapshot v{}, max v{}), index has {} keys", st.map.len(), st.snapshot_version, st.max_version, want.len()),
                    ));
                }
            }
            Err(e) => findings.push(Finding::new(
                &["C20"],
                "on-disk files are malformed after a concurrent history",
                "decode at quiescence",
                e,
            )),
        }
    }
    // ---- what a concurrent history left behind must survive a clean restart unchanged
    let before = cassadilia_verif::oracle::observe(&ctx.cas);
    let root = ctx.root.clone();
    drop(ctx);
    let Prepared { ctx: pctx, base } = prep;
    let sole_owner = Arc::try_unwrap(pctx).is_ok(); // drops the handle (and the scan result)
    if sole_owner && !any_error {
        let opened = std::panic::catch_unwind(std::panic::AssertUnwindSafe(|| {
            Cas::<String>::open(&root, config(prog.n_ops, true, false, true, true))
        }));
        let opened = match opened {
            Ok(r) => r,
            Err(p) => {
                let msg = p.downcast_ref::<String>().cloned().or_else(|| p.downcast_ref::<&str>().map(|s| s.to_string())).unwrap_or_default();
                findings.push(Finding::new(
                    &["C02", focus_static(focus)],
                    "reopen after a concurrent history panicked",
                    "reopen after concurrent run",
                    msg,
                ));
                fsx::rm_rf(&base);
                return Ok(Judged { findings, outcome, feats, fatal: false });
            }
        };
        match opened {
            Ok(cas) => {
                let after = cassadilia_verif::oracle::observe(&cas);
                let d = before.diff(&after, true);
                if !d.is_empty() {
                    findings.push(Finding::new(
                        &["C02", focus_static(focus)],
                        "state left by a concurrent history changed across a clean restart",
                        "reopen after concurrent run",
                        d.join("; "),
                    ));
                }
            }
            Err(e) => findings.push(Finding::new(
                &["C02", focus_static(focus)],
                &format!("reopen after a concurrent history failed: {}", class_of_err(&err_chain(&e))),
                "reopen after concurrent run",
                err_chain(&e),
            )),
        }
    }
    fsx::rm_rf(&base);
    Ok(Judged { findings, outcome, feats, fatal: false })
}

fn class_of_err(e: &str) -> String {
    let first = e.split(" <- ").next().unwrap_or(e);
    let mut s = String::new();
    let mut in_hex = 0;
    for c in first.chars() {
        if c.is_ascii_hexdigit() {
            in_hex += 1;
            if in_hex <= 1 {
                s.push('#');
            }
        } else {
            in_hex = 0;
            s.push(c);
        }
    }
    s.chars().take(80).collect()
}

fn focus_static(focus: &str) -> &'static str {
    match focus {
        "C02" => "C02",
        "C20" => "C20",
        "C17" => "C17",
        "C18" => "C18",
        "C05" => "C05",
        "C06" => "C06",
        "C07" => "C07",
        "C08" => "C08",
        "C12" => "C12",
        "C13" => "C13",
        "C15" => "C15",
        _ => "C04",
    }
}

fn preemptions_upto(decs: &[sched::Decision], upto: usize) -> usize {
    decs[..upto]
        .iter()
        .filter(|d| d.current.is_some_and(|c| d.runnable.contains(&c) && d.chosen != c))
        .count()
}

struct Explorer<'a> {
    focus: &'a str,
    seed: u64,
    rep: &'a mut Report,
    interleavings: BTreeSet<u64>,
    deadline: Instant,
}

impl Explorer<'_> {
    fn record(&mut self, prog: &Program, strategy: &Strategy, serial: bool, j: Judged) -> bool {
        self.rep.evaluations += 1;
        let id = sched::interleaving_id(&j.outcome);
        let fresh = self.interleavings.insert(id);
        if fresh {
            self.rep.count("distinct_interleavings", 1);
        }
        self.rep.count("decision_points", j.outcome.decisions.len() as u64);
        self.rep.count("invariant_checks", j.outcome.points_checked);
        let f = &j.feats;
        let nontrivial = match self.focus {
            "C04" => f.unlink_in_commit_window || f.two_writers_same_key,
            "C05" | "C17" => f.read_overlapped,
            "C08" => f.orphan_vs_commit,
            "C13" => f.abort_overlapped,
            "C15" => f.contention,
            _ => true,
        };
        for (name, b) in [
            ("win_unlink_inside_commit_window", f.unlink_in_commit_window),
            ("win_read_overlapped_by_writer", f.read_overlapped),
            ("win_orphan_cleanup_vs_commit", f.orphan_vs_commit),
            ("win_abort_overlapped", f.abort_overlapped),
            ("win_lock_contention", f.contention),
        ] {
            if b {
                self.rep.count(name, 1);
            }
        }
        if nontrivial && fresh {
            let mut key = prog.text().into_bytes();
            key.extend_from_slice(&id.to_le_bytes());
            self.rep.distinct_case(&key);
        }
        if j.outcome.watchdog {
            self.rep.inconclusive.push(format!(
                "watchdog in program {} schedule {}",
                prog.id,
                schedule_desc(strategy)
            ));
        }
        if j.outcome.diverged {
            self.rep.count("diverged_replays", 1);
        }
        let mut any = false;
        for fd in j.findings {
            if fd.kind == "lin-inconclusive" {
                self.rep.inconclusive.push(format!("linearizability search budget hit: program {}", prog.id));
                continue;
            }
            any = true;
            let replay = J::obj()
                .set("engine", J::s("concmon"))
                .set(
                    "argv",
                    J::Arr(
                        [
                            "--focus".to_string(),
                            self.focus.to_string(),
                            "--seed".into(),
                            self.seed.to_string(),
                            "--program".into(),
                            prog.id.to_string(),
                            "--schedule".into(),
                            schedule_desc(strategy),
                        ]
                        .into_iter()
                        .chain(if serial { vec![] } else { vec!["--free".to_string()] })
                        .map(J::Str)
                        .collect(),
                    ),
                )
                .set("program", J::s(prog.text()))
                .set(
                    "interleaving",
                    J::Arr(
                        j.outcome
                            .events
                            .iter()
                            .take(400)
                            .map(|(w, e)| J::s(format!("w{w} {e}")))
                            .collect(),
                    ),
                );
            self.rep.violate(fd, replay);
        }
        if self.rep.samples.len() < 3 && nontrivial && !any {
            self.rep.sample(
                J::obj()
                    .set("program", J::s(prog.text()))
                    .set("schedule", J::s(schedule_desc(strategy)))
                    .set(
                        "interleaving_head",
                        J::Arr(j.outcome.events.iter().take(40).map(|(w, e)| J::s(format!("w{w} {e}"))).collect()),
                    ),
            );
        }
        j.fatal
    }

    /// Returns true if the process must stop (deadlock: threads are stuck for real).
    fn explore(&mut self, prog: &Program, random_runs: u64, bound: usize, max_systematic: u64, free_runs: u64) -> bool {
        // seeded random and sticky schedules
        for i in 0..random_runs {
            if Instant::now() > self.deadline {
                self.rep.count("skipped_deadline", 1);
                return false;
            }
            let s = self.seed ^ prog.id.wrapping_mul(0x9E37) ^ i.wrapping_mul(0x1234_5678_9ABC);
            let strategy = if i % 3 == 0 { Strategy::Random { seed: s } } else { Strategy::Sticky { seed: s, stay: 70 + (i % 3) * 10 } };
            match run_and_judge(prog, strategy.clone(), true, self.focus) {
                Ok(j) => {
                    self.rep.count("runs_random", 1);
                    if self.record(prog, &strategy, true, j) {
                        return true;
                    }
                }
                Err(e) => self.rep.inconclusive.push(format!("program {} could not be prepared: {e}", prog.id)),
            }
        }
        // delay-site sweep: park whoever reaches the site until another worker completed a whole
        // operation - at every occurrence (stalls retry loops across several foreign operations)
        for site in STALL_SITES {
            if Instant::now() > self.deadline {
                return false;
            }
            let strategy = Strategy::Stall { site: (*site).to_string() };
            match run_and_judge(prog, strategy.clone(), true, self.focus) {
                Ok(j) => {
                    self.rep.count("runs_delay_site_sweep", 1);
                    if self.record(prog, &strategy, true, j) {
                        return true;
                    }
                }
                Err(e) => self.rep.inconclusive.push(format!("program {} could not be prepared: {e}", prog.id)),
            }
        }
        // bounded-preemption systematic search
        let mut stack: Vec<Vec<usize>> = vec![vec![]];
        let mut done = 0u64;
        let mut exhausted = true;
        while let Some(prefix) = stack.pop() {
            if done >= max_systematic || Instant::now() > self.deadline {
                exhausted = false;
                break;
            }
            let strategy = Strategy::Prefix { prefix: prefix.clone() };
            let j = match run_and_judge(prog, strategy.clone(), true, self.focus) {
                Ok(j) => j,
                Err(e) => {
                    self.rep.inconclusive.push(format!("program {} could not be prepared: {e}", prog.id));
                    break;
                }
            };
            done += 1;
            self.rep.count("runs_systematic", 1);
            let decs = j.outcome.decisions.clone();
            let diverged = j.outcome.diverged;
            if self.record(prog, &strategy, true, j) {
                return true;
            }
            if diverged {
                continue;
            }
            let choice_idx: Vec<usize> = decs
                .iter()
                .map(|d| d.runnable.iter().position(|x| *x == d.chosen).unwrap_or(0))
                .collect();
            for i in prefix.len()..decs.len() {
                let d = &decs[i];
                if d.runnable.len() < 2 {
                    continue;
                }
                let used = preemptions_upto(&decs, i);
                for (alt_idx, alt) in d.runnable.iter().enumerate() {
                    if *alt == d.chosen {
                        continue;
                    }
                    let cost = usize::from(d.current.is_some_and(|c| d.runnable.contains(&c) && *alt != c));
                    if used + cost <= bound {
                        let mut p = choice_idx[..i].to_vec();
                        p.push(alt_idx);
                        stack.push(p);
                    }
                }
            }
        }
        if exhausted {
            self.rep.count(&format!("programs_exhausted_at_bound_{bound}"), 1);
        } else {
            self.rep.count("programs_search_truncated", 1);
        }
        // free parallel runs with jitter and an observer thread
        for i in 0..free_runs {
            if Instant::now() > self.deadline {
                return false;
            }
            let strategy = Strategy::Random { seed: self.seed ^ i ^ (prog.id << 20) };
            match run_and_judge(prog, strategy.clone(), false, self.focus) {
                Ok(j) => {
                    self.rep.count("runs_free_parallel", 1);
                    if self.record(prog, &strategy, false, j) {
                        return true;
                    }
                }
                Err(e) => self.rep.inconclusive.push(format!("program {} could not be prepared: {e}", prog.id)),
            }
        }
        false
    }
}

fn main() {
    let args = Args::from_env();
    let _guard = fsx::ScratchGuard;
    cassadilia_verif::report::install_panic_location_hook();
    let focus = args.str("focus", "C04");
    let seed = args.u64("seed", 1);
    let thorough = args.has("thorough");
    let programs = args.u64("programs", 20);
    let first = args.u64("first", 0);
    let deadline = Instant::now() + Duration::from_secs(args.u64("deadline", 3600));
    let started = Instant::now();
    let mut rep = Report::new("concmon");
    {
        let mut ex = Explorer { focus: &focus, seed, rep: &mut rep, interleavings: BTreeSet::new(), deadline };
        if let Some(pid) = args.get("program") {
            let prog = gen_program(seed, pid.parse().expect("--program"), &focus, thorough);
            let strategy = parse_schedule(args.get("schedule").unwrap_or("prefix:")).expect("--schedule");
            match run_and_judge(&prog, strategy.clone(), !args.has("free"), &focus) {
                Ok(j) => {
                    ex.record(&prog, &strategy, !args.has("free"), j);
                }
                Err(e) => ex.rep.inconclusive.push(e),
            }
        } else {
            let (random_runs, bound, max_sys, free_runs) = if thorough {
                (args.u64("random", 60), args.u64("bound", 2) as usize, args.u64("max-systematic", 6000), args.u64("free", 20))
            } else {
                (args.u64("random", 12), args.u64("bound", 1) as usize, args.u64("max-systematic", 400), args.u64("free", 3))
            };
            for p in first..first + programs {
                let prog = gen_program(seed, p, &focus, thorough);
                ex.rep.count(&format!("family_{}", prog.family), 1);
                ex.rep.count("programs", 1);
                if ex.explore(&prog, random_runs, bound, max_sys, free_runs) {
                    ex.rep.notes.push("stopped after a deadlock: worker threads are stuck".into());
                    break;
                }
                if Instant::now() > deadline {
                    break;
                }
            }
        }
    }
    // lock-order graph over everything this process ran
    let edges = sched::sched().edges();
    for c in sched::lock_order_cycles(&edges) {
        rep.violate(
            Finding::new(&["C15"], "lock-order cycle", "lock-order graph", c),
            J::obj().set("engine", J::s("concmon")).set("argv", J::Arr(vec![])),
        );
    }
    rep.count("lock_order_edges", edges.len() as u64);
    rep.notes.push(format!(
        "lock-order edges: {}",
        edges
            .iter()
            .map(|e| format!(
                "{}({})->{}({})",
                e.from,
                if e.from_excl { "x" } else { "r" },
                e.to,
                if e.to_excl { "x" } else { "r" }
            ))
            .collect::<BTreeSet<_>>()
            .into_iter()
            .collect::<Vec<_>>()
            .join(" ")
    ));
    rep.count("wall_ms", started.elapsed().as_millis() as u64);
    rep.emit(args.get("out"));
    // worker threads of a deadlocked run are stuck; leave without joining them
    std::process::exit(0);
}
