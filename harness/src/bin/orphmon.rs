//! orphmon: garbage planted on cleanly closed stores (C08). The start-up scan must report
//! exactly what an independent directory/index comparison finds; clean-up must remove exactly the
//! reported garbage and never touch live data.
//!
//! usage: orphmon --seed S --cases N [--thorough] [--case I] [--out report.json]

use std::collections::{BTreeMap, BTreeSet};
use std::path::Path;
use std::sync::Mutex;
use std::sync::atomic::{AtomicU64, Ordering};

use cassadilia::{BlobHash, Cas};
use cassadilia_verif::fsx;
use cassadilia_verif::generator::{Gen, GenCfg};
use cassadilia_verif::json::{J, hex};
use cassadilia_verif::keys::TestKey;
use cassadilia_verif::model::{Hash32, b3, rel_path_of};
use cassadilia_verif::ops::{Op, enc_script};
use cassadilia_verif::oracle::{self, hash_of_rel_path};
use cassadilia_verif::report::{Args, Finding, Report};
use cassadilia_verif::rng::Rng;
use cassadilia_verif::session::{ModelRunner, Session, config, err_chain};

#[derive(Default, Debug)]
struct Expect {
    orphaned: BTreeSet<Hash32>,
    missing: BTreeSet<Hash32>,
    corrupted: BTreeSet<Hash32>,
    invalid: BTreeSet<String>,
    staging: BTreeSet<String>,
}

fn expect_scan(root: &Path, referenced: &BTreeMap<Hash32, u64>) -> Expect {
    let mut e = Expect::default();
    let cas = root.join("cas");
    let mut present = BTreeSet::new();
    for rel in fsx::files_rec(&cas) {
        match hash_of_rel_path(&rel) {
            Some(h) => {
                present.insert(h);
                match referenced.get(&h) {
                    None => {
                        e.orphaned.insert(h);
                    }
                    Some(size) => {
                        let bytes = std::fs::read(cas.join(&rel)).unwrap_or_default();
                        if bytes.len() as u64 != *size || b3(&bytes) != h {
                            e.corrupted.insert(h);
                        }
                    }
                }
            }
            None => {
                e.invalid.insert(format!("cas/{rel}"));
            }
        }
    }
    for h in referenced.keys() {
        if !present.contains(h) {
            e.missing.insert(*h);
        }
    }
    for rel in fsx::files_rec(&root.join("staging")) {
        e.staging.insert(format!("staging/{rel}"));
    }
    e
}

fn rel_set(root: &Path, v: &[std::path::PathBuf]) -> BTreeSet<String> {
    v.iter().map(|p| p.strip_prefix(root).unwrap_or(p).to_string_lossy().to_string()).collect()
}

fn hset(v: &[BlobHash]) -> BTreeSet<Hash32> {
    v.iter().map(|h| h.0).collect()
}

fn show(s: &BTreeSet<Hash32>) -> Vec<String> {
    s.iter().map(|h| hex(h)[..10].to_string()).collect()
}

fn run_case<K: TestKey>(seed: u64, case: u64, rep: &mut Report) {
    let mut rng = Rng::derive(seed ^ 0x0C08, case);
    let root = fsx::fresh_path("orph");
    let n_ops = *rng.pick(&[2u64, 3, 1000]);
    let cfg = config(n_ops, true, false, true, true);
    let mut g: Gen<K> = Gen::new(
        &mut rng,
        GenCfg { n_keys: 5, n_contents: 5, allow_reopen: false, allow_tx: false, allow_abort: false, ..Default::default() },
    );
    let mut mr: ModelRunner<K> = ModelRunner::new();
    let mut history: Vec<Op<K>> = Vec::new();
    let mut planted: Vec<String> = Vec::new();
    let mut findings: Vec<Finding> = Vec::new();
    let replay = |hist: &[Op<K>], planted: &[String]| -> J {
        J::obj()
            .set("engine", J::s("orphmon"))
            .set("argv", J::Arr(["--seed".to_string(), seed.to_string(), "--case".into(), case.to_string()].into_iter().map(J::Str).collect()))
            .set("history", J::s(enc_script(hist)))
            .set("planted", J::Arr(planted.iter().map(|s| J::s(s.clone())).collect()))
    };
    {
        let mut sess = match Session::<K>::open(&root, cfg.clone()) {
            Ok(s) => s,
            Err(e) => {
                rep.inconclusive.push(format!("open failed: {e}"));
                return;
            }
        };
        for _ in 0..rng.range(4, 14) {
            let op = g.next_op(&mut rng, &mr.model);
            mr.step(&op);
            if let Err(e) = sess.exec(&op) {
                rep.inconclusive.push(format!("setup op failed: {e}"));
                return;
            }
            history.push(op);
        }
        sess.close();
    }
    // ---- plant garbage
    let cas_dir = root.join("cas");
    let live: Vec<(Hash32, Vec<u8>)> = {
        let mut seen = BTreeSet::new();
        mr.model.map.values().filter(|v| seen.insert(b3(v))).map(|v| (b3(v), v.clone())).collect()
    };
    let n_plants = rng.range(1, 6);
    let mut damaged_live = false;
    for _ in 0..n_plants {
        match rng.below(14) {
            12 => {
                // lower-case hex, 64 digits in total, but split 3/1/60 or 1/3/60: not a blob path
                let c = rng.bytes_between(1, 40);
                let hx = hex(&b3(&c));
                let (a, b) = if rng.chance(1, 2) { (&hx[0..3], &hx[3..4]) } else { (&hx[0..1], &hx[1..4]) };
                let d = cas_dir.join(a).join(b);
                // (an earlier plant may have made a file of the first component's name)
                if std::fs::create_dir_all(&d).is_err() || std::fs::write(d.join(&hx[4..]), &c).is_err() {
                    continue;
                }
                planted.push(format!("skewed-split file cas/{a}/{b}/{}", &hx[4..14]));
            }
            13 if !live.is_empty() => {
                // a live blob moved to a skewed-split path: invalid file there, blob missing here
                let (h, c) = rng.pick(&live).clone();
                let hx = hex(&h);
                let d = cas_dir.join(&hx[0..3]).join(&hx[3..4]);
                std::fs::create_dir_all(&d).unwrap();
                std::fs::write(d.join(&hx[4..]), &c).unwrap();
                let _ = std::fs::remove_file(cas_dir.join(rel_path_of(&h)));
                damaged_live = true;
                planted.push(format!("live blob {} moved to a skewed-split path", &hx[..10]));
            }
            0 | 1 | 2 => {
                // an unreferenced canonical blob (maybe the content of a later put)
                let c = if rng.chance(1, 2) { rng.pick(&g.contents).bytes() } else { rng.bytes_between(0, 200) };
                let h = b3(&c);
                if live.iter().any(|(lh, _)| *lh == h) {
                    continue;
                }
                let p = cas_dir.join(rel_path_of(&h));
                std::fs::create_dir_all(p.parent().unwrap()).unwrap();
                std::fs::write(&p, &c).unwrap();
                planted.push(format!("orphan blob {}", &hex(&h)[..10]));
            }
            3 if !live.is_empty() => {
                let (h, c) = rng.pick(&live).clone();
                let p = cas_dir.join(rel_path_of(&h));
                if c.is_empty() {
                    continue;
                }
                let cut = rng.usize(c.len());
                std::fs::write(&p, &c[..cut]).unwrap();
                damaged_live = true;
                planted.push(format!("truncated live blob {} to {cut}", &hex(&h)[..10]));
            }
            4 if !live.is_empty() => {
                let (h, mut c) = rng.pick(&live).clone();
                if c.is_empty() {
                    continue;
                }
                let at = rng.usize(c.len());
                c[at] ^= 1 << rng.below(8);
                std::fs::write(cas_dir.join(rel_path_of(&h)), &c).unwrap();
                damaged_live = true;
                planted.push(format!("bit flip in live blob {} (same size)", &hex(&h)[..10]));
            }
            5 if !live.is_empty() => {
                let (h, c) = rng.pick(&live).clone();
                let mut c2 = c.clone();
                c2.extend_from_slice(b"tail");
                std::fs::write(cas_dir.join(rel_path_of(&h)), &c2).unwrap();
                damaged_live = true;
                planted.push(format!("extended live blob {}", &hex(&h)[..10]));
            }
            6 if !live.is_empty() => {
                let (h, _) = rng.pick(&live).clone();
                let _ = std::fs::remove_file(cas_dir.join(rel_path_of(&h)));
                damaged_live = true;
                planted.push(format!("deleted live blob {}", &hex(&h)[..10]));
            }
            7 => {
                let name = *rng.pick(&["stray.txt", "zz", ".hidden", "0"]);
                // (an earlier plant may have made a directory of that name)
                if std::fs::write(cas_dir.join(name), b"x").is_ok() {
                    planted.push(format!("stray file cas/{name}"));
                }
            }
            8 => {
                let d = cas_dir.join("ab");
                std::fs::create_dir_all(&d).unwrap();
                let name = *rng.pick(&["stray", "cd.tmp", "zz"]);
                std::fs::write(d.join(name), b"y").unwrap();
                planted.push(format!("stray file cas/ab/{name}"));
            }
            9 => {
                let d = cas_dir.join("ab").join("cd");
                std::fs::create_dir_all(&d).unwrap();
                let name = match rng.below(4) {
                    0 => "not-hex-at-all".to_string(),
                    1 => "0123".to_string(),
                    2 => "g".repeat(60),
                    _ => format!("{}0", "1".repeat(60)),
                };
                std::fs::write(d.join(&name), b"z").unwrap();
                planted.push(format!("stray file cas/ab/cd/{name}"));
            }
            10 => {
                let name = format!("leftover{}", rng.below(100));
                std::fs::write(root.join("staging").join(&name), rng.bytes_between(0, 50)).unwrap();
                planted.push(format!("staging file {name}"));
            }
            _ => {
                // hex but not canonical: upper-case twin of a would-be blob path
                let c = rng.bytes_between(1, 40);
                let hx = hex(&b3(&c)).to_uppercase();
                if hx == hx.to_lowercase() {
                    continue;
                }
                let d = cas_dir.join(&hx[0..2]).join(&hx[2..4]);
                std::fs::create_dir_all(&d).unwrap();
                std::fs::write(d.join(&hx[4..]), &c).unwrap();
                planted.push(format!("upper-case hex file cas/{}/{}/{}", &hx[0..2], &hx[2..4], &hx[4..14]));
            }
        }
    }
    if planted.is_empty() {
        fsx::rm_rf(&root);
        return;
    }
    // ---- open with recovery, compare the scan
    let referenced: BTreeMap<Hash32, u64> = mr.model.map.values().map(|v| (b3(v), v.len() as u64)).collect();
    let want = expect_scan(&root, &referenced);
    let (sess, stats) = match Session::<K>::open_with_recover(&root, cfg.clone()) {
        Ok(x) => x,
        Err(e) => {
            findings.push(Finding::new(&["C08"], "open_with_recover failed on a store with planted garbage", "open", err_chain(&e)));
            for f in findings {
                rep.violate(f, replay(&history, &planted));
            }
            fsx::rm_rf(&root);
            return;
        }
    };
    rep.evaluations += 1;
    let Some(stats) = stats else {
        rep.inconclusive.push("no stats".into());
        return;
    };
    let site = "start-up scan on planted garbage";
    let mut cmp_h = |name: &str, got: BTreeSet<Hash32>, want: &BTreeSet<Hash32>| {
        if got != *want {
            findings.push(Finding::new(
                &["C08"],
                &format!("start-up scan reports wrong {name}"),
                site,
                format!("reported {:?}, expected {:?}", show(&got), show(want)),
            ));
        }
    };
    cmp_h("orphans", hset(&stats.orphaned_blobs), &want.orphaned);
    cmp_h("missing blobs", hset(&stats.missing_blobs), &want.missing);
    cmp_h("corrupted blobs", hset(&stats.corrupted_blobs), &want.corrupted);
    let got_invalid = rel_set(&root, &stats.invalid_files);
    if got_invalid != want.invalid {
        findings.push(Finding::new(
            &["C08"],
            "start-up scan reports wrong invalid files",
            site,
            format!("reported {got_invalid:?}, expected {:?}", want.invalid),
        ));
    }
    let got_staging = rel_set(&root, &stats.staging_files);
    if got_staging != want.staging {
        findings.push(Finding::new(
            &["C08"],
            "start-up scan reports wrong staging files",
            site,
            format!("reported {got_staging:?}, expected {:?}", want.staging),
        ));
    }
    for (name, n) in [
        ("planted_orphans", want.orphaned.len()),
        ("planted_missing", want.missing.len()),
        ("planted_corrupted", want.corrupted.len()),
        ("planted_invalid", want.invalid.len()),
        ("planted_staging", want.staging.len()),
    ] {
        rep.count(name, n as u64);
    }
    // ---- clean-up
    let before = oracle::observe(sess.cas());
    let mode = rng.below(3);
    let site2 = "clean-up of planted garbage";
    if findings.is_empty() {
        match mode {
            0 => match stats.delete_orphans() {
                Ok(r) => {
                    if r.orphans_deleted != want.orphaned.len() || r.orphans_skipped != 0 || !r.errors.is_empty() {
                        findings.push(Finding::new(
                            &["C08"],
                            "delete_orphans did not delete exactly the reported orphans",
                            site2,
                            format!("{} orphans: deleted {} skipped {} errors {:?}", want.orphaned.len(), r.orphans_deleted, r.orphans_skipped, r.errors),
                        ));
                    }
                    if r.invalid_files_removed != want.invalid.len() || r.staging_files_removed != want.staging.len() {
                        findings.push(Finding::new(
                            &["C08"],
                            "delete_orphans did not remove exactly the reported invalid and staging files",
                            site2,
                            format!("invalid {} of {}, staging {} of {}", r.invalid_files_removed, want.invalid.len(), r.staging_files_removed, want.staging.len()),
                        ));
                    }
                    // what is left: exactly the referenced files that were there before
                    let left: BTreeSet<String> = fsx::files_rec(&cas_dir).into_iter().collect();
                    let expected_left: BTreeSet<String> =
                        referenced.keys().filter(|h| !want.missing.contains(*h)).map(rel_path_of).collect();
                    if left != expected_left {
                        findings.push(Finding::new(
                            &["C08"],
                            "after delete_orphans cas/ is not exactly the referenced blobs",
                            site2,
                            format!(
                                "extra {:?} missing {:?}",
                                left.difference(&expected_left).take(3).collect::<Vec<_>>(),
                                expected_left.difference(&left).take(3).collect::<Vec<_>>()
                            ),
                        ));
                    }
                    if !fsx::files_rec(&root.join("staging")).is_empty() {
                        findings.push(Finding::new(&["C08"], "staging/ not empty after delete_orphans", site2, String::new()));
                    }
                }
                Err(e) => findings.push(Finding::new(&["C08"], "delete_orphans failed", site2, err_chain(&e))),
            },
            1 => {
                let q = root.parent().unwrap().join(format!("quarantine-{case}"));
                match stats.quarantine_orphans(&q) {
                    Ok(r) => {
                        if r.orphans_quarantined != want.orphaned.len() || r.orphans_skipped != 0 || !r.errors.is_empty() {
                            findings.push(Finding::new(
                                &["C08"],
                                "quarantine_orphans did not move exactly the reported orphans",
                                site2,
                                format!("{} orphans: moved {} skipped {} errors {:?}", want.orphaned.len(), r.orphans_quarantined, r.orphans_skipped, r.errors),
                            ));
                        }
                        for h in &want.orphaned {
                            let moved = q.join(hex(h));
                            match std::fs::read(&moved) {
                                Ok(b) if b3(&b) == *h => {}
                                _ => findings.push(Finding::new(&["C08"], "a quarantined blob is missing or altered", site2, hex(h))),
                            }
                            if cas_dir.join(rel_path_of(h)).exists() {
                                findings.push(Finding::new(&["C08"], "a quarantined blob is still in cas/", site2, hex(h)));
                            }
                        }
                    }
                    Err(e) => findings.push(Finding::new(&["C08"], "quarantine_orphans failed", site2, err_chain(&e))),
                }
                fsx::rm_rf(&q);
            }
            _ => {
                // delete_orphan per hash: true exactly for reported, unreferenced orphans
                let mut candidates: Vec<Hash32> = want.orphaned.iter().copied().collect();
                candidates.extend(referenced.keys().copied());
                candidates.push([9u8; 32]);
                for h in candidates {
                    let should = want.orphaned.contains(&h);
                    match stats.delete_orphan(&BlobHash(h)) {
                        Ok(b) if b == should => {}
                        Ok(b) => findings.push(Finding::new(
                            &["C08"],
                            "delete_orphan returned the wrong verdict",
                            site2,
                            format!("{}: returned {b}, orphan={should}", &hex(&h)[..10]),
                        )),
                        Err(e) => findings.push(Finding::new(&["C08"], "delete_orphan failed", site2, err_chain(&e))),
                    }
                    if should && cas_dir.join(rel_path_of(&h)).exists() {
                        findings.push(Finding::new(&["C08"], "delete_orphan left the orphan in place", site2, hex(&h)));
                    }
                    // a second call must say false
                    if should && stats.delete_orphan(&BlobHash(h)).ok() != Some(false) {
                        findings.push(Finding::new(&["C08"], "delete_orphan is not idempotent", site2, hex(&h)));
                    }
                }
            }
        }
        // live data untouched
        let after = oracle::observe(sess.cas());
        let d = before.diff(&after, true);
        if !d.is_empty() {
            findings.push(Finding::new(&["C08"], "clean-up changed live data", site2, d.join("; ")));
        }
        rep.count(match mode { 0 => "cleanup_delete", 1 => "cleanup_quarantine", _ => "cleanup_delete_one" }, 1);
    }
    drop(stats);
    // ---- the store keeps working: re-put the content of a deleted orphan
    if findings.is_empty() && !damaged_live {
        let key = g.keys[0].clone();
        let content = g.contents[0];
        let mut s2 = sess;
        let op = Op::Put { key, content, chunks: vec![] };
        mr.step(&op);
        if let Err(e) = s2.exec(&op) {
            findings.push(Finding::new(&["C08"], "a put failed after clean-up", site2, e));
        } else if mode == 0 {
            let mut f2 = Vec::new();
            oracle::check_cas_exact(&root, &mr.model, &mut f2);
            for mut f in f2 {
                f.props = vec!["C08"];
                f.kind = format!("exactness not restored after clean-up: {}", f.kind);
                findings.push(f);
            }
        }
        s2.close();
    } else {
        sess.close();
    }
    fsx::rm_rf(&root);
    rep.distinct_case(format!("{}|{planted:?}", enc_script(&history)).as_bytes());
    if rep.samples.len() < 4 && findings.is_empty() {
        rep.sample(J::obj().set("case", J::u(case)).set("planted", J::Arr(planted.iter().map(|s| J::s(s.clone())).collect())).set(
            "cleanup",
            J::s(match mode { 0 => "delete_orphans", 1 => "quarantine_orphans", _ => "delete_orphan per hash" }),
        ));
    }
    for f in findings {
        rep.violate(f, replay(&history, &planted));
    }
}

fn main() {
    let args = Args::from_env();
    let _guard = fsx::ScratchGuard;
    cassadilia_verif::report::install_panic_location_hook();
    let seed = args.u64("seed", 1);
    let cases = args.u64("cases", 300);
    let ids: Vec<u64> = match args.get("case") {
        Some(c) => vec![c.parse().expect("--case")],
        None => (0..cases).collect(),
    };
    let started = std::time::Instant::now();
    let deadline = started + std::time::Duration::from_secs(args.u64("deadline", 3600));
    let next = AtomicU64::new(0);
    let total = Mutex::new(Report::new("orphmon"));
    std::thread::scope(|s| {
        for _ in 0..16usize.min(ids.len()).max(1) {
            s.spawn(|| {
                let mut rep = Report::new("orphmon");
                loop {
                    let i = next.fetch_add(1, Ordering::Relaxed) as usize;
                    if i >= ids.len() {
                        break;
                    }
                    if std::time::Instant::now() > deadline {
                        rep.count("cases_skipped_deadline", 1);
                        continue;
                    }
                    let id = ids[i];
                    let r = std::panic::catch_unwind(std::panic::AssertUnwindSafe(|| {
                        if id % 2 == 0 { run_case::<String>(seed, id, &mut rep) } else { run_case::<Vec<u8>>(seed, id, &mut rep) }
                    }));
                    let at = cassadilia_verif::report::last_panic_location();
                    if r.is_err() && cassadilia_verif::report::panic_is_in_harness(&at) {
                        rep.inconclusive.push(format!("harness panic at {at} in case {id}"));
                    } else if r.is_err() {
                        rep.violate(
                            Finding::new(&["C08"], "panic while scanning or cleaning planted garbage", "panic", format!("case {id}")),
                            J::obj().set("engine", J::s("orphmon")).set(
                                "argv",
                                J::Arr(["--seed".to_string(), seed.to_string(), "--case".into(), id.to_string()].into_iter().map(J::Str).collect()),
                            ),
                        );
                    }
                }
                total.lock().unwrap().merge(rep);
            });
        }
    });
    let mut rep = total.into_inner().unwrap();
    rep.count("wall_ms", started.elapsed().as_millis() as u64);
    rep.emit(args.get("out"));
}
