//! lockmon: exclusive ownership of a database directory (C11) and the "rejected before anything
//! is modified" half of the settings/version gate (C19), observed through ownership ledgers, the
//! interposer's call trace of losing / rejected opens, and byte-exact tree snapshots.
//!
//! usage: lockmon [--mode race|gate] --seed S --rounds N [--thorough] [--out report.json]

use std::path::{Path, PathBuf};
use std::process::{Command, Stdio};
use std::sync::{Arc, Barrier, Mutex};
use std::time::{Duration, Instant};

use cassadilia::{Cas, LibError};
use cassadilia_verif::child::Tools;
use cassadilia_verif::fsx;
use cassadilia_verif::json::J;
use cassadilia_verif::report::{Args, Finding, Report};
use cassadilia_verif::rng::Rng;
use cassadilia_verif::session::{config, err_chain};
use cassadilia_verif::trace::{self, EvKind};

fn mono_ns() -> u64 {
    let mut ts = libc::timespec { tv_sec: 0, tv_nsec: 0 };
    unsafe { libc::clock_gettime(libc::CLOCK_MONOTONIC, &mut ts) };
    ts.tv_sec as u64 * 1_000_000_000 + ts.tv_nsec as u64
}

#[derive(Debug, Clone)]
struct Entry {
    what: String,
    id: String,
    t: u64,
    rest: String,
}

fn read_ledger(p: &Path) -> Vec<Entry> {
    std::fs::read_to_string(p)
        .unwrap_or_default()
        .lines()
        .filter_map(|l| {
            let mut it = l.splitn(4, ' ');
            Some(Entry {
                what: it.next()?.to_string(),
                id: it.next()?.to_string(),
                t: it.next()?.parse().ok()?,
                rest: it.next().unwrap_or("").to_string(),
            })
        })
        .collect()
}

/// Ownership intervals [acquired, releasing] must not overlap; everybody else must have lost
/// with the "already opened" error.
fn judge_ledger(entries: &[Entry], n: usize, site: &str, out: &mut Vec<Finding>) -> usize {
    let mut intervals: Vec<(u64, u64, String)> = Vec::new();
    for e in entries.iter().filter(|e| e.what == "acquired") {
        let rel = entries.iter().find(|r| r.what == "releasing" && r.id == e.id).map(|r| r.t).unwrap_or(u64::MAX);
        intervals.push((e.t, rel, e.id.clone()));
    }
    intervals.sort();
    for w in intervals.windows(2) {
        if w[1].0 < w[0].1 {
            out.push(Finding::new(
                &["C11"],
                "two handles owned the directory at the same time",
                site,
                format!("contender {} held [{}, {}], contender {} acquired at {}", w[0].2, w[0].0, w[0].1, w[1].2, w[1].0),
            ));
        }
    }
    for e in entries.iter().filter(|e| e.what == "error") {
        out.push(Finding::new(
            &["C11"],
            "a losing open failed with something other than the already-opened error",
            site,
            format!("contender {}: {}", e.id, e.rest),
        ));
    }
    let outcomes = entries.iter().filter(|e| matches!(e.what.as_str(), "acquired" | "lost" | "error")).count();
    if outcomes != n {
        out.push(Finding::new(&[], "ledger-incomplete", site, format!("{outcomes} outcomes for {n} contenders")));
    }
    if intervals.is_empty() && outcomes == n {
        out.push(Finding::new(&["C11"], "nobody could open a free directory", site, format!("{n} contenders all lost")));
    }
    intervals.len()
}

fn driver_cmd(tools: &Tools, args: &[String], shim_root: Option<&Path>, trace: Option<&Path>) -> Command {
    let mut cmd = Command::new(&tools.driver);
    cmd.args(args).stdin(Stdio::null()).stdout(Stdio::null()).stderr(Stdio::null());
    if let Some(r) = shim_root {
        cmd.env("LD_PRELOAD", &tools.shim).env("FSSHIM_ROOT", r);
        if let Some(t) = trace {
            cmd.env("FSSHIM_TRACE", t);
        }
    }
    cmd
}

fn hold_args(root: &Path, ledger: &Path, id: usize, n_ops: u64, start_at: u64, hold_ms: u64) -> Vec<String> {
    vec![
        "hold".into(),
        "--root".into(),
        root.display().to_string(),
        "--ledger".into(),
        ledger.display().to_string(),
        "--id".into(),
        id.to_string(),
        "--n-ops".into(),
        n_ops.to_string(),
        "--start-at".into(),
        start_at.to_string(),
        "--hold-ms".into(),
        hold_ms.to_string(),
    ]
}

/// What a losing / rejected open did to the directory according to the interposer.
fn mutating_calls(trace_path: &Path, root: &Path) -> Vec<String> {
    let text = std::fs::read_to_string(trace_path).unwrap_or_default();
    let rs = root.display().to_string();
    let mut out = Vec::new();
    for e in trace::parse_trace(&text) {
        if e.n == 0 || e.ret < 0 {
            continue;
        }
        if let EvKind::Open { path, .. } = &e.kind
            && trace::path_class(&rs, path) == "lock"
        {
            continue; // opening LOCK is how ownership is tested
        }
        out.push(trace::call_label(&rs, &e));
    }
    out
}

fn populate(cas: &Cas<Vec<u8>>, rng: &mut Rng) {
    for i in 0..rng.range(1, 5) as u8 {
        let mut tx = cas.put(vec![i]).unwrap();
        tx.write(&vec![i; 10 + i as usize]).unwrap();
        tx.finish().unwrap();
    }
}

fn replay(mode: &str, seed: u64, round: u64) -> J {
    J::obj().set("engine", J::s("lockmon")).set(
        "argv",
        J::Arr(
            ["--mode".to_string(), mode.to_string(), "--seed".into(), seed.to_string(), "--round".into(), round.to_string()]
                .into_iter()
                .map(J::Str)
                .collect(),
        ),
    )
}

fn race_round(seed: u64, round: u64, tools: &Tools, rep: &mut Report) {
    let mut rng = Rng::derive(seed ^ 0xC11, round);
    let base = fsx::fresh_path("lock");
    std::fs::create_dir_all(&base).unwrap();
    let root = base.join("db");
    let n_ops = 3u64;
    let mut findings: Vec<Finding> = Vec::new();
    let kind = round % 6;
    let pre_populated = rng.chance(1, 2);
    if pre_populated {
        let cas = Cas::<Vec<u8>>::open(&root, config(n_ops, true, false, true, false)).unwrap();
        populate(&cas, &mut rng);
    }
    let mut desc = String::new();
    match kind {
        0 | 1 => {
            // n threads in this process, released by a barrier
            let n = rng.range(2, 8) as usize;
            desc = format!("{n} threads race for a {} directory", if pre_populated { "populated" } else { "fresh" });
            let barrier = Arc::new(Barrier::new(n));
            let ledger: Arc<Mutex<Vec<Entry>>> = Arc::new(Mutex::new(Vec::new()));
            let mut hs = Vec::new();
            for id in 0..n {
                let (b, l, r) = (barrier.clone(), ledger.clone(), root.clone());
                let delay = rng.below(200);
                hs.push(std::thread::spawn(move || {
                    b.wait();
                    let t0 = Instant::now();
                    while t0.elapsed() < Duration::from_micros(delay) {
                        std::hint::spin_loop();
                    }
                    match Cas::<Vec<u8>>::open(&r, config(n_ops, true, false, true, false)) {
                        Ok(cas) => {
                            l.lock().unwrap().push(Entry { what: "acquired".into(), id: id.to_string(), t: mono_ns(), rest: String::new() });
                            std::thread::sleep(Duration::from_micros(300));
                            l.lock().unwrap().push(Entry { what: "releasing".into(), id: id.to_string(), t: mono_ns(), rest: String::new() });
                            drop(cas);
                        }
                        Err(LibError::AlreadyOpened) => {
                            l.lock().unwrap().push(Entry { what: "lost".into(), id: id.to_string(), t: mono_ns(), rest: String::new() })
                        }
                        Err(e) => l.lock().unwrap().push(Entry { what: "error".into(), id: id.to_string(), t: mono_ns(), rest: err_chain(&e) }),
                    }
                }));
            }
            for h in hs {
                let _ = h.join();
            }
            let entries = ledger.lock().unwrap().clone();
            let winners = judge_ledger(&entries, n, "threads racing to open", &mut findings);
            rep.count("thread_races", 1);
            rep.count("thread_race_winners", winners as u64);
            rep.count("thread_race_losers", (n - winners.min(n)) as u64);
        }
        2 | 3 => {
            // n processes spinning until a common start instant
            let n = rng.range(2, 6) as usize;
            desc = format!("{n} processes race for a {} directory", if pre_populated { "populated" } else { "fresh" });
            let ledger = base.join("ledger");
            let start_at = mono_ns() + 40_000_000;
            let mut children = Vec::new();
            for id in 0..n {
                let jitter = rng.below(200_000);
                let a = hold_args(&root, &ledger, id, n_ops, start_at + jitter, 3);
                if let Ok(c) = driver_cmd(tools, &a, None, None).spawn() {
                    children.push(c);
                }
            }
            for mut c in children {
                let _ = c.wait();
            }
            let entries = read_ledger(&ledger);
            let winners = judge_ledger(&entries, n, "processes racing to open", &mut findings);
            rep.count("process_races", 1);
            rep.count("process_race_winners", winners as u64);
            rep.count("process_race_losers", (n - winners.min(n)) as u64);
        }
        4 => {
            // idle owner with a populated, not yet checkpointed store; a traced loser
            desc = "traced losing open against an idle owner; then clone / scan result keep ownership".into();
            let (owner, stats) = Cas::<Vec<u8>>::open_with_recover(&root, config(n_ops, true, false, true, false)).unwrap();
            populate(&owner, &mut rng);
            let before = fsx::tree_snapshot(&root);
            let ledger = base.join("ledger");
            let tr = base.join("trace");
            let a = hold_args(&root, &ledger, 7, n_ops, 0, 1);
            let _ = driver_cmd(tools, &a, Some(&root), Some(&tr)).status();
            let entries = read_ledger(&ledger);
            if !entries.iter().any(|e| e.what == "lost") {
                findings.push(Finding::new(
                    &["C11"],
                    "an open succeeded or failed differently while the owner was alive",
                    "losing open against an idle owner",
                    format!("{entries:?}"),
                ));
            }
            let muts = mutating_calls(&tr, &root);
            if !muts.is_empty() {
                findings.push(Finding::new(
                    &["C11"],
                    "a losing open performed mutating filesystem calls on the database",
                    "trace of the losing open",
                    format!("{muts:?}"),
                ));
            }
            let after = fsx::tree_snapshot(&root);
            if before != after {
                findings.push(Finding::new(
                    &["C11"],
                    "a losing open modified database files",
                    "tree snapshot around the losing open",
                    format!("{:?}", fsx::diff_snapshots(&before, &after)),
                ));
            }
            rep.count("traced_losing_opens", 1);
            // a clone keeps the directory owned after the original handle is dropped
            let clone = owner.clone();
            drop(owner);
            if !matches!(Cas::<Vec<u8>>::open(&root, config(n_ops, true, false, true, false)), Err(LibError::AlreadyOpened)) {
                findings.push(Finding::new(&["C11"], "open succeeded while a clone of the handle was alive", "clone alive", String::new()));
            }
            drop(clone);
            // the scan result keeps it owned, too
            if stats.is_some() {
                if !matches!(Cas::<Vec<u8>>::open(&root, config(n_ops, true, false, true, false)), Err(LibError::AlreadyOpened)) {
                    findings.push(Finding::new(&["C11"], "open succeeded while the scan result of the previous handle was alive", "scan result alive", String::new()));
                }
                rep.count("scan_result_keeps_ownership_checked", 1);
            }
            drop(stats);
            match Cas::<Vec<u8>>::open(&root, config(n_ops, true, false, true, false)) {
                Ok(_) => {}
                Err(e) => findings.push(Finding::new(&["C11"], "open failed after every owner was dropped", "after drop", err_chain(&e))),
            }
        }
        _ => {
            // owner process dies by SIGKILL
            desc = "owner process killed with SIGKILL, then reopened".into();
            let ledger = base.join("ledger");
            let mut a = hold_args(&root, &ledger, 1, n_ops, 0, 60_000);
            a.push("--populate".into());
            let mut child = driver_cmd(tools, &a, None, None).spawn().unwrap();
            let t0 = Instant::now();
            let mut acquired = false;
            while t0.elapsed() < Duration::from_secs(20) {
                if read_ledger(&ledger).iter().any(|e| e.what == "acquired") {
                    acquired = true;
                    break;
                }
                std::thread::sleep(Duration::from_millis(1));
            }
            if !acquired {
                rep.inconclusive.push("owner process never reported acquisition".into());
                let _ = child.kill();
                let _ = child.wait();
            } else {
                // while it lives, nobody else gets in
                std::thread::sleep(Duration::from_millis(rng.range(0, 4)));
                if !matches!(Cas::<Vec<u8>>::open(&root, config(n_ops, true, false, true, false)), Err(LibError::AlreadyOpened)) {
                    findings.push(Finding::new(&["C11"], "open succeeded while another process owned the directory", "owner process alive", String::new()));
                }
                let _ = child.kill();
                let _ = child.wait();
                match Cas::<Vec<u8>>::open(&root, config(n_ops, true, false, true, false)) {
                    Ok(_) => rep.count("reopen_after_sigkill_ok", 1),
                    Err(e) => findings.push(Finding::new(&["C11"], "open failed after the owner process died", "after SIGKILL", err_chain(&e))),
                }
            }
        }
    }
    // the same directory under other spellings (a symbolic link on the way, a `..` component):
    // while one handle lives every spelling is refused, after it is dropped every spelling opens
    if findings.is_empty() {
        let link = base.join("link");
        let _ = std::os::unix::fs::symlink(&base, &link);
        let _ = std::fs::create_dir_all(base.join("sub"));
        let spellings = [root.clone(), link.join("db"), base.join("sub").join("..").join("db")];
        let cfg = || config(n_ops, true, false, true, false);
        let first = spellings[(round % 3) as usize].clone();
        match Cas::<Vec<u8>>::open(&first, cfg()) {
            Ok(owner) => {
                for s in &spellings {
                    if !matches!(Cas::<Vec<u8>>::open(s, cfg()), Err(LibError::AlreadyOpened)) {
                        findings.push(Finding::new(
                            &["C11"],
                            "a second open under another spelling of the path did not fail with the already-opened error",
                            "path spellings",
                            format!("owner opened {}, second open of {}", first.display(), s.display()),
                        ));
                    }
                }
                drop(owner);
                for s in &spellings {
                    match Cas::<Vec<u8>>::open(s, cfg()) {
                        Ok(h) => drop(h),
                        Err(e) => findings.push(Finding::new(
                            &["C11"],
                            "open failed after the owner was dropped",
                            "path spellings",
                            format!("owner had opened {}, reopen of {}: {}", first.display(), s.display(), err_chain(&e)),
                        )),
                    }
                }
                rep.count("path_spelling_rounds", 1);
            }
            Err(e) => findings.push(Finding::new(
                &["C11"],
                "open failed after every owner was dropped",
                "path spellings",
                format!("{}: {}", first.display(), err_chain(&e)),
            )),
        }
    }
    rep.evaluations += 1;
    rep.distinct_case(format!("{desc}|{round}").as_bytes());
    if rep.samples.len() < 4 {
        rep.sample(J::obj().set("round", J::u(round)).set("scenario", J::s(desc.clone())));
    }
    for f in findings {
        if f.kind == "ledger-incomplete" {
            rep.inconclusive.push(format!("{}: {}", f.site, f.detail));
            continue;
        }
        rep.violate(f, replay("race", seed, round));
    }
    fsx::rm_rf(&base);
}

fn patch_version(orig: &str, v: u64) -> Option<String> {
    let i = orig.find("\"version\":")?;
    let rest = &orig[i + 10..];
    let end = rest.find([',', '}'])?;
    Some(format!("{}\"version\":{v}{}", &orig[..i], &rest[end..]))
}

/// C19: a mismatching open, run in a traced child, performs no mutating call at all.
fn gate_round(seed: u64, round: u64, tools: &Tools, rep: &mut Report) {
    let mut rng = Rng::derive(seed ^ 0xC19, round);
    let base = fsx::fresh_path("gate");
    std::fs::create_dir_all(&base).unwrap();
    let root = base.join("db");
    let sizes = [1u64, 2, 3, 7, 1000, 10_000];
    let n_create = *rng.pick(&sizes);
    {
        let cas = Cas::<Vec<u8>>::open(&root, config(n_create, true, false, true, false)).unwrap();
        populate(&cas, &mut rng);
    }
    let mut findings: Vec<Finding> = Vec::new();
    let settings = root.join("db_settings.json");
    let orig = std::fs::read_to_string(&settings).unwrap_or_default();
    let (what, n_open) = if round % 2 == 0 {
        let mut n_bad = *rng.pick(&sizes);
        if n_bad == n_create {
            n_bad += 1;
        }
        (format!("segment size {n_bad} on a database created with {n_create}"), n_bad)
    } else {
        let v = *rng.pick(&[0u64, 1, 3, 5, 4_294_967_295]);
        match patch_version(&orig, v) {
            Some(p) => std::fs::write(&settings, p).unwrap(),
            None => {
                rep.inconclusive.push("could not patch version".into());
                return;
            }
        }
        (format!("stored format version {v}"), n_create)
    };
    let before = fsx::tree_snapshot(&root);
    let ledger = base.join("ledger");
    let tr = base.join("trace");
    let a = hold_args(&root, &ledger, 1, n_open, 0, 1);
    let _ = driver_cmd(tools, &a, Some(&root), Some(&tr)).status();
    let entries = read_ledger(&ledger);
    let site = if round % 2 == 0 { "segment size gate" } else { "version gate" };
    match entries.first().map(|e| e.what.as_str()) {
        Some("error") => rep.count("rejected_opens_traced", 1),
        Some("acquired") => findings.push(Finding::new(&["C19"], "a mismatching open was accepted", site, what.clone())),
        other => rep.inconclusive.push(format!("unexpected ledger {other:?}")),
    }
    let muts = mutating_calls(&tr, &root);
    if !muts.is_empty() {
        findings.push(Finding::new(
            &["C19"],
            "a rejected open performed mutating filesystem calls before it was rejected",
            site,
            format!("{what}: {muts:?}"),
        ));
    }
    let after = fsx::tree_snapshot(&root);
    if before != after {
        findings.push(Finding::new(
            &["C19"],
            "a rejected open modified the database directory",
            site,
            format!("{what}: {:?}", fsx::diff_snapshots(&before, &after)),
        ));
    }
    if round % 2 == 1 {
        std::fs::write(&settings, &orig).unwrap();
    }
    // the correct open still sees the data
    match Cas::<Vec<u8>>::open(&root, config(n_create, true, false, true, true)) {
        Ok(cas) => {
            let n = cas.read_index_state().len();
            if n == 0 {
                findings.push(Finding::new(&["C19"], "data is gone after a rejected open", site, what.clone()));
            }
        }
        Err(e) => findings.push(Finding::new(&["C19"], "the correct open fails after a rejected open", site, err_chain(&e))),
    }
    rep.evaluations += 1;
    rep.distinct_case(format!("{what}|{round}").as_bytes());
    if rep.samples.len() < 4 {
        rep.sample(J::obj().set("round", J::u(round)).set("rejected_open", J::s(what.clone())));
    }
    for f in findings {
        rep.violate(f, replay("gate", seed, round));
    }
    fsx::rm_rf(&base);
}

fn main() {
    let args = Args::from_env();
    let _guard = fsx::ScratchGuard;
    let mode = args.str("mode", "race");
    let seed = args.u64("seed", 1);
    let rounds = args.u64("rounds", 120);
    let tools = Tools::locate();
    let started = Instant::now();
    let deadline = started + std::time::Duration::from_secs(args.u64("deadline", 3600));
    let ids: Vec<u64> = match args.get("round") {
        Some(r) => vec![r.parse().expect("--round")],
        None => (0..rounds).collect(),
    };
    // rounds are themselves races between threads/processes: run them four at a time only
    let next = std::sync::atomic::AtomicUsize::new(0);
    let total = Mutex::new(Report::new("lockmon"));
    std::thread::scope(|s| {
        // One round at a time: a fork()ed child of a concurrent round would hold a duplicate of this
        // round's LOCK descriptor until its exec(), which keeps the flock alive after the owner
        // was dropped - an artefact of the harness, not of the store.
        for _ in 0..1usize.min(ids.len()).max(1) {
            s.spawn(|| {
                let mut rep = Report::new("lockmon");
                loop {
                    let i = next.fetch_add(1, std::sync::atomic::Ordering::Relaxed);
                    if i >= ids.len() {
                        break;
                    }
                    if Instant::now() > deadline {
                        rep.count("rounds_skipped_deadline", 1);
                        continue;
                    }
                    if mode == "gate" {
                        gate_round(seed, ids[i], &tools, &mut rep);
                    } else {
                        race_round(seed, ids[i], &tools, &mut rep);
                    }
                }
                total.lock().unwrap().merge(rep);
            });
        }
    });
    let mut rep = total.into_inner().unwrap();
    rep.count("wall_ms", started.elapsed().as_millis() as u64);
    rep.emit(args.get("out"));
}
