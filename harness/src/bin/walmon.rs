//! walmon: damage to the not-yet-checkpointed part of the write-ahead log (C10). For logs
//! produced by the real code (clean drops, and kills in the middle of a rollover so that the
//! tail spans two segments), every truncation offset and byte alterations of checksum and
//! payload of uncheckpointed records are applied to a copy; `Cas::open` must then fail, or
//! succeed with exactly the state after the records strictly before the damaged one — as computed
//! by the independent decoder.
//!
//! usage: walmon --seed S --cases N [--thorough] [--case I] [--out report.json]

use std::collections::BTreeMap;
use std::path::{Path, PathBuf};
use std::sync::Mutex;
use std::sync::atomic::{AtomicU64, Ordering};
use std::time::Duration;

use cassadilia::Cas;
use cassadilia_verif::child::{ShimEnv, Tools, run_driver};
use cassadilia_verif::disk::{self, DOp, HEADER};
use cassadilia_verif::fsx;
use cassadilia_verif::generator::{Gen, GenCfg};
use cassadilia_verif::json::{J, hex};
use cassadilia_verif::keys::TestKey;
use cassadilia_verif::model::Hash32;
use cassadilia_verif::ops::{Content, Op, enc_script};
use cassadilia_verif::report::{Args, Finding, Report};
use cassadilia_verif::rng::Rng;
use cassadilia_verif::session::{ModelRunner, Session, config, err_chain};
use cassadilia_verif::trace;

type State = BTreeMap<Vec<u8>, (Hash32, u64)>;

struct LogRecord {
    seg_id: u64,
    seg_path: PathBuf,
    offset: usize,
    total: usize,
    version: u64,
    /// state after all uncheckpointed records strictly before this one
    prefix_state: State,
    /// the record is still in the log although an explicit checkpoint already covers it: cutting
    /// the log inside it must leave the checkpointed state (only truncations are tried here)
    covered: bool,
}

struct LogImage {
    root: PathBuf,
    n_ops: u64,
    records: Vec<LogRecord>,
    segments: Vec<(u64, PathBuf)>,
    origin: String,
    /// states after every prefix of the API-level history (a multi-key removal is ONE operation)
    api_states: Vec<State>,
}

fn apply(st: &mut State, op: &DOp) {
    match op {
        DOp::Put { key, hash, size } => {
            st.insert(key.clone(), (*hash, *size));
        }
        DOp::Remove { keys } => {
            for k in keys {
                st.remove(k);
            }
        }
    }
}

fn analyse(
    root: &Path,
    n_ops: u64,
    origin: String,
    ops: &[Op<Vec<u8>>],
    explicit_cp: Option<(u64, State)>,
) -> Result<LogImage, String> {
    let mut st: State = BTreeMap::new();
    let mut snap_v = 0u64;
    if let Ok(b) = std::fs::read(root.join("index")) {
        let s = disk::parse_snapshot(&b)?;
        snap_v = s.version;
        for (k, h, sz) in s.entries {
            st.insert(k, (h, sz));
        }
    }
    // with an explicit checkpoint in the history, what is checkpointed is known from the history
    // itself (version = logged operations before it, state = the model's), not from the file
    if let Some((v, state)) = &explicit_cp {
        snap_v = *v;
        st = state.clone();
    }
    let segments = disk::list_segments(root);
    let mut records = Vec::new();
    for (id, path) in &segments {
        let bytes = std::fs::read(path).map_err(|e| e.to_string())?;
        let seg = disk::parse_segment(*id, &bytes)?;
        for r in seg.records {
            if r.version <= snap_v {
                if explicit_cp.is_some() {
                    records.push(LogRecord {
                        seg_id: *id,
                        seg_path: path.clone(),
                        offset: r.offset,
                        total: HEADER + r.payload.len(),
                        version: r.version,
                        prefix_state: st.clone(),
                        covered: true,
                    });
                }
                continue;
            }
            let op = disk::parse_op(&r.payload)?;
            records.push(LogRecord {
                seg_id: *id,
                seg_path: path.clone(),
                offset: r.offset,
                total: HEADER + r.payload.len(),
                version: r.version,
                prefix_state: st.clone(),
                covered: false,
            });
            apply(&mut st, &op);
        }
    }
    // API-level prefix states from the reference model
    let mut api_states: Vec<State> = Vec::new();
    let mut mr: ModelRunner<Vec<u8>> = ModelRunner::new();
    let snap = |mr: &ModelRunner<Vec<u8>>| -> State {
        mr.model.map.iter().map(|(k, v)| (k.clone(), (cassadilia_verif::model::b3(v), v.len() as u64))).collect()
    };
    api_states.push(snap(&mr));
    for op in ops {
        mr.step(op);
        api_states.push(snap(&mr));
    }
    Ok(LogImage { root: root.to_path_buf(), n_ops, records, segments, origin, api_states })
}

/// Copy only what replay looks at (no blobs).
fn copy_meta(src: &Path, dst: &Path) -> std::io::Result<()> {
    std::fs::create_dir_all(dst.join("cas"))?;
    std::fs::create_dir_all(dst.join("staging"))?;
    for e in std::fs::read_dir(src)? {
        let e = e?;
        if e.file_type()?.is_file() {
            std::fs::copy(e.path(), dst.join(e.file_name()))?;
        }
    }
    Ok(())
}

enum Damage {
    Truncate { at: usize },
    Flip { at: usize, mask: u8 },
}

fn open_and_read(root: &Path, n_ops: u64) -> Result<Result<State, String>, String> {
    std::panic::catch_unwind(std::panic::AssertUnwindSafe(|| {
        match Cas::<Vec<u8>>::open(root, config(n_ops, true, false, false, false)) {
            Ok(cas) => {
                let g = cas.read_index_state();
                Ok(g.iter().map(|(k, i)| (k.clone(), (i.blob_hash.0, i.blob_size))).collect::<State>())
            }
            Err(e) => Err(err_chain(&e)),
        }
    }))
    .map_err(|p| {
        if let Some(s) = p.downcast_ref::<String>() {
            s.clone()
        } else if let Some(s) = p.downcast_ref::<&str>() {
            (*s).to_string()
        } else {
            "panic".into()
        }
    })
}

fn judge(img: &LogImage, rec: &LogRecord, dmg: &Damage, rep: &mut Report, seed: u64, case: u64) {
    let work = fsx::fresh_path("waldmg");
    if copy_meta(&img.root, &work).is_err() {
        rep.inconclusive.push("copy failed".into());
        return;
    }
    let seg = work.join(rec.seg_path.file_name().unwrap());
    let mut bytes = std::fs::read(&seg).unwrap_or_default();
    let (what, region) = match dmg {
        Damage::Truncate { at } => {
            bytes.truncate(*at);
            // the log loses its tail: later segments are gone too
            for (id, p) in &img.segments {
                if *id > rec.seg_id {
                    let _ = std::fs::remove_file(work.join(p.file_name().unwrap()));
                }
            }
            let rel = at - rec.offset;
            (format!("log cut at byte {rel} of record v{} ({} bytes)", rec.version, rec.total), if rel < HEADER { "header" } else { "payload" })
        }
        Damage::Flip { at, mask } => {
            bytes[*at] ^= mask;
            let rel = at - rec.offset;
            (
                format!("byte {rel} of record v{} xor {mask:#04x}", rec.version),
                if rel < 40 { "checksum" } else { "payload" },
            )
        }
    };
    std::fs::write(&seg, &bytes).unwrap();
    rep.evaluations += 1;
    let site = match dmg {
        Damage::Truncate { .. } => format!("truncation inside {region}"),
        Damage::Flip { .. } => format!("altered {region} byte"),
    };
    let replay = || {
        J::obj()
            .set("engine", J::s("walmon"))
            .set("argv", J::Arr(["--seed".to_string(), seed.to_string(), "--case".into(), case.to_string()].into_iter().map(J::Str).collect()))
            .set("log", J::s(img.origin.clone()))
            .set("damage", J::s(what.clone()))
    };
    match open_and_read(&work, img.n_ops) {
        Err(p) => rep.violate(
            Finding::new(&["C10"], "open panicked on a damaged log", &site, format!("{what}: {p}")),
            replay(),
        ),
        Ok(Err(_)) => rep.count(&format!("rejected: {site}"), 1),
        Ok(Ok(state)) => {
            if state == rec.prefix_state && !img.api_states.contains(&state) {
                rep.violate(
                    Finding::new(
                        &["C10"],
                        "a damaged log was accepted with part of one operation applied",
                        &site,
                        format!(
                            "{what}: opened with {} keys, which is the state after no prefix of the {} operations of the history",
                            state.len(),
                            img.api_states.len() - 1
                        ),
                    ),
                    replay(),
                );
            } else if state == rec.prefix_state {
                rep.count(&format!("prefix accepted: {site}"), 1);
            } else {
                rep.violate(
                    Finding::new(
                        &["C10"],
                        "a damaged log was accepted with a state other than the undamaged prefix",
                        &site,
                        format!(
                            "{what}: opened with {} keys, prefix state has {} keys; differing keys {:?}",
                            state.len(),
                            rec.prefix_state.len(),
                            state
                                .iter()
                                .filter(|(k, v)| rec.prefix_state.get(*k) != Some(*v))
                                .map(|(k, _)| hex(k))
                                .chain(rec.prefix_state.keys().filter(|k| !state.contains_key(*k)).map(|k| hex(k)))
                                .take(4)
                                .collect::<Vec<_>>()
                        ),
                    ),
                    replay(),
                );
            }
        }
    }
    fsx::rm_rf(&work);
}

fn damages(rec: &LogRecord, rng: &mut Rng, thorough: bool) -> Vec<Damage> {
    let mut v = Vec::new();
    let o = rec.offset;
    let t = rec.total;
    // truncations: every offset inside the record (sampled inside long payloads in quick mode)
    for rel in 0..t {
        let keep = thorough || rel < HEADER + 24 || rel + 6 >= t || t <= 400 || rng.chance(1, (t / 150).max(1) as u64);
        if keep {
            v.push(Damage::Truncate { at: o + rel });
        }
    }
    if rec.covered {
        return v;
    }
    // alterations: checksum bytes 8..40 and payload bytes 44..t
    let masks: &[u8] = if thorough { &[0x01, 0x80, 0xff] } else { &[0x01, 0xff] };
    for rel in (8..40).chain(HEADER..t) {
        let keep = thorough || rel < HEADER + 64 || rel + 4 >= t || t <= 300 || rng.chance(1, (t / 120).max(1) as u64);
        if keep {
            for m in masks {
                v.push(Damage::Flip { at: o + rel, mask: *m });
            }
        }
    }
    v
}

fn history<K: TestKey>(rng: &mut Rng, long_records: bool, len: usize) -> Vec<Op<K>> {
    let mut g: Gen<K> = Gen::new(
        rng,
        GenCfg { n_keys: 4, n_contents: 4, allow_reopen: false, allow_checkpoint: false, allow_tx: false, allow_abort: false, ..Default::default() },
    );
    let mut mr: ModelRunner<K> = ModelRunner::new();
    let mut ops = Vec::new();
    if long_records {
        let long = K::bulk(0, 9000);
        ops.push(Op::Put { key: long, content: Content::new(5, 10), chunks: vec![] });
        for i in 1..=8 {
            ops.push(Op::Put { key: K::bulk(i, 1100), content: Content::new(6, 12), chunks: vec![] });
        }
        ops.push(Op::RemoveRange { lo: std::ops::Bound::Included(K::bulk(1, 1100)), hi: std::ops::Bound::Included(K::bulk(8, 1100)) });
        for op in &ops {
            mr.step(op);
        }
    }
    while ops.len() < len {
        let op = g.next_op(rng, &mr.model);
        if mr.logs_record(&op) || rng.chance(1, 4) {
            mr.step(&op);
            ops.push(op);
        }
    }
    ops
}

/// Build one log image; `class` selects how the tail comes about.
fn build(seed: u64, case: u64, tools: &Tools, rep: &mut Report) -> Option<(LogImage, PathBuf)> {
    let mut rng = Rng::derive(seed ^ 0xA10, case);
    let base = fsx::fresh_path("wal");
    std::fs::create_dir_all(&base).ok()?;
    let root = base.join("db");
    let class = case % 6;
    match class {
        0 | 1 | 2 | 4 | 5 => {
            // clean drop; 0: no snapshot at all, 1: tail after a rollover checkpoint, 2: long records,
            // 5: explicit checkpoint in mid-segment (covered records remain in the log),
            // 4: a range removal over hundreds of keys (one operation, however it is logged)
            let n_ops = match class {
                0 => 1000,
                1 => *rng.pick(&[3u64, 5, 7]),
                _ => 1000,
            };
            let len = rng.range(5, 12) as usize;
            let ops: Vec<Op<Vec<u8>>> = if class == 4 {
                let n = rng.range(140, 330) as usize;
                let mut v: Vec<Op<Vec<u8>>> = (0..n)
                    .map(|i| Op::Put { key: format!("m{i:04}").into_bytes(), content: Content::new(9, 9), chunks: vec![] })
                    .collect();
                v.push(Op::RemoveRange { lo: std::ops::Bound::Unbounded, hi: std::ops::Bound::Unbounded });
                v.push(Op::Put { key: b"after".to_vec(), content: Content::new(10, 11), chunks: vec![] });
                v
            } else {
                history(&mut rng, class == 2, len)
            };
            // 5: an explicit checkpoint in the middle of the (single) segment: the records before
            // it stay in the log although the snapshot covers them
            let mut ops = ops;
            let mut explicit_cp: Option<(u64, State)> = None;
            if class == 5 {
                let at = rng.range(2, ops.len() as u64 - 1) as usize;
                let mut mr: ModelRunner<Vec<u8>> = ModelRunner::new();
                let mut v = 0u64;
                for op in &ops[..at] {
                    if mr.logs_record(op) {
                        v += 1;
                    }
                    mr.step(op);
                }
                let state: State =
                    mr.model.map.iter().map(|(k, b)| (k.clone(), (cassadilia_verif::model::b3(b), b.len() as u64))).collect();
                explicit_cp = Some((v, state));
                ops.insert(at, Op::Checkpoint);
            }
            let mut sess = Session::<Vec<u8>>::open(&root, config(n_ops, true, false, false, false)).ok()?;
            for op in &ops {
                if sess.exec(op).is_err() {
                    rep.inconclusive.push("history op failed".into());
                    return None;
                }
            }
            sess.close();
            let origin = format!("class {class} clean drop n_ops={n_ops}\n{}", enc_script(&ops));
            match analyse(&root, n_ops, origin, &ops, explicit_cp) {
                Ok(img) => Some((img, base)),
                Err(e) => {
                    rep.inconclusive.push(format!("could not analyse an undamaged log: {e}"));
                    None
                }
            }
        }
        _ => {
            // kill in the middle of a rollover checkpoint: the tail spans two segments
            let n_ops = *rng.pick(&[2u64, 3]);
            let ops: Vec<Op<Vec<u8>>> = history(&mut rng, false, 8);
            let script = base.join("script");
            std::fs::write(&script, enc_script(&ops)).ok()?;
            let args = |root: &Path, ack: &Path| -> Vec<String> {
                vec![
                    "run".into(),
                    "--root".into(),
                    root.display().to_string(),
                    "--script".into(),
                    script.display().to_string(),
                    "--acklog".into(),
                    ack.display().to_string(),
                    "--ktype".into(),
                    "bytes".into(),
                    "--n-ops".into(),
                    n_ops.to_string(),
                    "--sync".into(),
                    "1".into(),
                ]
            };
            let troot = base.join("trace-db");
            let tr = base.join("trace");
            let r = run_driver(
                tools,
                &args(&troot, &base.join("ack0")),
                &ShimEnv { root: Some(troot.clone()), trace: Some(tr.clone()), ..Default::default() },
                Duration::from_secs(60),
            );
            if r.code != Some(0) {
                rep.inconclusive.push(format!("trace run failed: {:?} {}", r.code, r.stderr));
                return None;
            }
            let evs = trace::parse_trace(&std::fs::read_to_string(&tr).unwrap_or_default());
            let labels = trace::labels_by_call(&troot.display().to_string(), &evs);
            // the index temp file is created during first open (none) and at each checkpoint
            let cands: Vec<u64> = labels.iter().filter(|(_, l)| l.as_str() == "open-create:index").map(|(k, _)| *k).collect();
            if cands.is_empty() {
                rep.inconclusive.push("no checkpoint in the trace".into());
                return None;
            }
            let k = *rng.pick(&cands);
            let r = run_driver(
                tools,
                &args(&root, &base.join("ack1")),
                &ShimEnv { root: Some(root.clone()), kill_at: Some(k), ..Default::default() },
                Duration::from_secs(60),
            );
            if r.code != Some(137) {
                rep.inconclusive.push(format!("kill run did not die as planned: {:?}", r.code));
                return None;
            }
            let origin = format!("class 3 killed before checkpoint call {k} n_ops={n_ops}\n{}", enc_script(&ops));
            match analyse(&root, n_ops, origin, &ops, None) {
                Ok(img) => {
                    let segs: std::collections::BTreeSet<u64> = img.records.iter().map(|r| r.seg_id).collect();
                    if segs.len() >= 2 {
                        rep.count("tails_spanning_two_segments", 1);
                    }
                    Some((img, base))
                }
                Err(e) => {
                    rep.inconclusive.push(format!("could not analyse a killed log: {e}"));
                    None
                }
            }
        }
    }
}

fn run_case(seed: u64, case: u64, thorough: bool, tools: &Tools, rep: &mut Report, deadline: std::time::Instant) {
    let Some((img, base)) = build(seed, case, tools, rep) else { return };
    if img.records.is_empty() {
        rep.count("logs_without_uncheckpointed_records", 1);
        fsx::rm_rf(&base);
        return;
    }
    let mut rng = Rng::derive(seed ^ 0xD4, case);
    // which records: first, last, largest, two random (all in thorough)
    let mut idx: Vec<usize> = if thorough {
        (0..img.records.len()).collect()
    } else {
        let largest = (0..img.records.len()).max_by_key(|i| img.records[*i].total).unwrap();
        let mut v = vec![
            0,
            img.records.len() - 1,
            largest,
            (largest + 1).min(img.records.len() - 1),
            largest.saturating_sub(1),
            rng.usize(img.records.len()),
            rng.usize(img.records.len()),
        ];
        v.sort();
        v.dedup();
        v
    };
    idx.dedup();
    rep.count("logs", 1);
    rep.count("uncheckpointed_records", img.records.len() as u64);
    for i in idx {
        if std::time::Instant::now() > deadline {
            rep.count("records_skipped_deadline", 1);
            continue;
        }
        let rec = &img.records[i];
        rep.count("records_damaged", 1);
        rep.max("max_record_bytes", rec.total as u64);
        let ds = damages(rec, &mut rng, thorough);
        for d in &ds {
            let key = match d {
                Damage::Truncate { at } => format!("{}|t{at}|{}", img.origin, rec.seg_id),
                Damage::Flip { at, mask } => format!("{}|f{at}:{mask}|{}", img.origin, rec.seg_id),
            };
            rep.distinct_case(key.as_bytes());
            judge(&img, rec, d, rep, seed, case);
        }
    }
    if rep.samples.len() < 3 {
        rep.sample(
            J::obj()
                .set("case", J::u(case))
                .set("log", J::s(img.origin.lines().next().unwrap_or("").to_string()))
                .set("uncheckpointed_records", J::u(img.records.len() as u64))
                .set(
                    "record_sizes",
                    J::Arr(img.records.iter().map(|r| J::u(r.total as u64)).collect()),
                ),
        );
    }
    fsx::rm_rf(&base);
}

fn main() {
    let args = Args::from_env();
    let _guard = fsx::ScratchGuard;
    let seed = args.u64("seed", 1);
    let cases = args.u64("cases", 24);
    let thorough = args.has("thorough");
    let tools = Tools::locate();
    let ids: Vec<u64> = match args.get("case") {
        Some(c) => vec![c.parse().expect("--case")],
        None => (0..cases).collect(),
    };
    let started = std::time::Instant::now();
    // wall-clock budget: after it no new log (and no new record of a log) is started
    let deadline = started + std::time::Duration::from_secs(args.u64("deadline", 3600));
    let next = AtomicU64::new(0);
    let total = Mutex::new(Report::new("walmon"));
    std::thread::scope(|s| {
        for _ in 0..16usize.min(ids.len()).max(1) {
            s.spawn(|| {
                let mut rep = Report::new("walmon");
                loop {
                    let i = next.fetch_add(1, Ordering::Relaxed) as usize;
                    if i >= ids.len() {
                        break;
                    }
                    if std::time::Instant::now() > deadline {
                        rep.count("cases_skipped_deadline", 1);
                        continue;
                    }
                    run_case(seed, ids[i], thorough, &tools, &mut rep, deadline);
                }
                total.lock().unwrap().merge(rep);
            });
        }
    });
    let mut rep = total.into_inner().unwrap();
    rep.count("wall_ms", started.elapsed().as_millis() as u64);
    rep.emit(args.get("out"));
}
