//! driver: child process used under the fsshim interposer.
//!
//!   driver run     --root R --script F --acklog A --ktype string|bytes --n-ops N --sync 0|1
//!                  [--observe] [--pre-create]
//!       executes the script; the ack log gets `B i c` before and `A i c ok|err <detail>` after
//!       every operation (c = interposer call counter), `V i v1,v2,..` = versions in the log after
//!       the op, `O i <json>` = API-observable state (with --observe). Keeps going after errors.
//!
//!   driver recover --root R --out D --ktype .. --n-ops N [--cleanup none|delete|quarantine]
//!                  [--script F] [--no-verify]
//!       opens with recovery (scan + integrity verification), dumps what it sees, optionally
//!       cleans up, optionally runs a continuation script, dumps again, reopens, dumps again.

use std::io::Write;

use cassadilia_verif::disk;
use cassadilia_verif::json::{J, hex};
use cassadilia_verif::keys::TestKey;
use cassadilia_verif::ops::{Op, dec_script};
use cassadilia_verif::oracle::observe;
use cassadilia_verif::report::Args;
use cassadilia_verif::session::{Outcome, Session, config, err_chain};

type CounterFn = unsafe extern "C" fn() -> libc::c_long;

fn shim_counter() -> i64 {
    static mut F: Option<CounterFn> = None;
    static INIT: std::sync::Once = std::sync::Once::new();
    INIT.call_once(|| unsafe {
        let p = libc::dlsym(libc::RTLD_DEFAULT, c"fsshim_counter".as_ptr());
        if !p.is_null() {
            F = Some(std::mem::transmute::<*mut libc::c_void, CounterFn>(p));
        }
    });
    unsafe {
        match F {
            Some(f) => f() as i64,
            None => -1,
        }
    }
}

struct AckLog {
    f: std::fs::File,
}

impl AckLog {
    fn open(path: &str) -> Self {
        let f = std::fs::OpenOptions::new().create(true).append(true).open(path).expect("acklog");
        AckLog { f }
    }
    fn line(&mut self, s: String) {
        let mut s = s;
        s.push('\n');
        let _ = self.f.write_all(s.as_bytes());
    }
}

fn outcome_text(o: &Outcome) -> String {
    match o {
        Outcome::Unit => "unit".into(),
        Outcome::Bool(b) => format!("bool:{b}"),
        Outcome::Count(c) => format!("count:{c}"),
    }
}

fn versions_text(root: &std::path::Path) -> String {
    let mut v: Vec<u64> = Vec::new();
    for (id, p) in disk::list_segments(root) {
        if let Ok(bytes) = std::fs::read(&p) {
            // lenient walk: stop at the first thing that is not a complete record
            let mut off = 0usize;
            while bytes.len() - off >= disk::HEADER {
                let ver = u64::from_le_bytes(bytes[off..off + 8].try_into().unwrap());
                let len = u32::from_le_bytes(bytes[off + 40..off + 44].try_into().unwrap()) as usize;
                if ver == 0 || len == 0 || bytes.len() - off - disk::HEADER < len {
                    break;
                }
                v.push(ver);
                off += disk::HEADER + len;
            }
            let _ = id;
        }
    }
    v.iter().map(|x| x.to_string()).collect::<Vec<_>>().join(",")
}

fn run<K: TestKey>(args: &Args) -> i32 {
    let root = std::path::PathBuf::from(args.get("root").expect("--root"));
    let script = std::fs::read_to_string(args.get("script").expect("--script")).expect("script");
    let ops: Vec<Op<K>> = dec_script(&script).expect("script parse");
    let mut ack = AckLog::open(args.get("acklog").expect("--acklog"));
    let n_ops = args.u64("n-ops", 3);
    let sync = args.u64("sync", 1) == 1;
    let observe_each = args.has("observe");
    let cfg = config(n_ops, sync, args.has("pre-create"), true, false);

    ack.line(format!("OPEN-BEGIN {}", shim_counter()));
    let mut sess = match Session::<K>::open(&root, cfg) {
        Ok(s) => s,
        Err(e) => {
            ack.line(format!("OPEN-ERR {} {}", shim_counter(), err_chain(&e)));
            return 3;
        }
    };
    ack.line(format!("OPEN-OK {}", shim_counter()));
    if observe_each {
        ack.line(format!("O -1 {}", observe(sess.cas()).to_json().to_string()));
    }
    // After an operation has failed, copies of the directory are taken at the following
    // operation boundaries (`S i`): each is what a restart at that moment would find, so damage
    // that a later operation of the same session happens to heal is still seen.
    let snap_dir = args.get("snap-dir").map(std::path::PathBuf::from);
    let snap_limit = args.u64("snap-limit", 0);
    let mut failed_seen = false;
    let mut snaps = 0u64;
    for (i, op) in ops.iter().enumerate() {
        ack.line(format!("B {i} {}", shim_counter()));
        let r = sess.exec(op);
        if r.is_err() {
            failed_seen = true;
        }
        match &r {
            Ok(o) => ack.line(format!("A {i} {} ok {}", shim_counter(), outcome_text(o))),
            Err(e) => ack.line(format!("A {i} {} err {}", shim_counter(), e.replace('\n', " "))),
        }
        if !sess.is_open() {
            ack.line(format!("STOP {i} handle lost"));
            return 4;
        }
        ack.line(format!("V {i} {}", versions_text(&root)));
        if observe_each {
            ack.line(format!("O {i} {}", observe(sess.cas()).to_json().to_string()));
        }
        if failed_seen
            && snaps < snap_limit
            && let Some(d) = &snap_dir
        {
            let dst = d.join(format!("snap-{i}"));
            if cassadilia_verif::fsx::copy_tree(&root, &dst).is_ok() {
                ack.line(format!("S {i}"));
                snaps += 1;
            }
        }
    }
    ack.line(format!("CLOSE-BEGIN {}", shim_counter()));
    sess.close();
    ack.line(format!("DONE {}", shim_counter()));
    0
}

fn stats_json<K: TestKey>(st: &cassadilia::OrphanStats<K>, root: &std::path::Path) -> J {
    let rel = |p: &std::path::PathBuf| -> J {
        J::s(p.strip_prefix(root).unwrap_or(p).to_string_lossy().to_string())
    };
    let mut orph: Vec<String> = st.orphaned_blobs.iter().map(|h| hex(&h.0)).collect();
    orph.sort();
    let mut miss: Vec<String> = st.missing_blobs.iter().map(|h| hex(&h.0)).collect();
    miss.sort();
    let mut corr: Vec<String> = st.corrupted_blobs.iter().map(|h| hex(&h.0)).collect();
    corr.sort();
    J::obj()
        .set("orphaned", J::Arr(orph.into_iter().map(J::Str).collect()))
        .set("missing", J::Arr(miss.into_iter().map(J::Str).collect()))
        .set("corrupted", J::Arr(corr.into_iter().map(J::Str).collect()))
        .set("invalid_files", J::Arr(st.invalid_files.iter().map(rel).collect()))
        .set("staging_files", J::Arr(st.staging_files.iter().map(rel).collect()))
        .set("total_blobs", J::u(st.total_blobs as u64))
}

fn recover<K: TestKey>(args: &Args) -> i32 {
    let root = std::path::PathBuf::from(args.get("root").expect("--root"));
    let out = args.get("out").expect("--out").to_string();
    let n_ops = args.u64("n-ops", 3);
    let verify = !args.has("no-verify");
    // a restart normally uses the configuration the store was created with
    let cfg = config(n_ops, true, args.has("pre-create"), true, verify);
    let mut doc = J::obj();
    let write = |doc: &J| {
        std::fs::write(&out, doc.to_string()).expect("write dump");
    };
    let (mut sess, stats) = match Session::<K>::open_with_recover(&root, cfg.clone()) {
        Ok(x) => x,
        Err(e) => {
            doc.put("open", J::s("err"));
            doc.put("error", J::s(err_chain(&e)));
            write(&doc);
            return 0;
        }
    };
    doc.put("open", J::s("ok"));
    doc.put("dump1", observe(sess.cas()).to_json());
    let Some(stats) = stats else {
        doc.put("error", J::s("no orphan stats although scanning was enabled"));
        write(&doc);
        return 0;
    };
    doc.put("scan", stats_json(&stats, &root));
    write(&doc);

    match args.str("cleanup", "none").as_str() {
        "delete" => match stats.delete_orphans() {
            Ok(r) => doc.put(
                "cleanup",
                J::obj()
                    .set("deleted", J::u(r.orphans_deleted as u64))
                    .set("skipped", J::u(r.orphans_skipped as u64))
                    .set("invalid_removed", J::u(r.invalid_files_removed as u64))
                    .set("staging_removed", J::u(r.staging_files_removed as u64))
                    .set("errors", J::Arr(r.errors.into_iter().map(J::Str).collect())),
            ),
            Err(e) => doc.put("cleanup_error", J::s(err_chain(&e))),
        },
        "quarantine" => {
            let q = root.parent().unwrap().join("quarantine");
            match stats.quarantine_orphans(&q) {
                Ok(r) => doc.put(
                    "cleanup",
                    J::obj()
                        .set("quarantined", J::u(r.orphans_quarantined as u64))
                        .set("skipped", J::u(r.orphans_skipped as u64))
                        .set("errors", J::Arr(r.errors.into_iter().map(J::Str).collect())),
                ),
                Err(e) => doc.put("cleanup_error", J::s(err_chain(&e))),
            }
        }
        _ => {}
    }
    drop(stats);
    doc.put("dump_after_cleanup", observe(sess.cas()).to_json());
    write(&doc);

    if let Some(script_path) = args.get("script") {
        let script = std::fs::read_to_string(script_path).expect("script");
        let ops: Vec<Op<K>> = dec_script(&script).expect("script parse");
        let mut results = Vec::new();
        for op in &ops {
            match sess.exec(op) {
                Ok(o) => results.push(J::s(format!("ok {}", outcome_text(&o)))),
                Err(e) => results.push(J::s(format!("err {e}"))),
            }
            if !sess.is_open() {
                break;
            }
        }
        doc.put("continuation_results", J::Arr(results));
        if sess.is_open() {
            doc.put("dump2", observe(sess.cas()).to_json());
            write(&doc);
            match sess.reopen(cfg) {
                Ok(()) => doc.put("dump3", observe(sess.cas()).to_json()),
                Err(e) => doc.put("reopen_error", J::s(err_chain(&e))),
            }
        }
    }
    write(&doc);
    if sess.is_open() {
        sess.close();
    }
    0
}

fn mono_ns() -> u64 {
    let mut ts = libc::timespec { tv_sec: 0, tv_nsec: 0 };
    unsafe { libc::clock_gettime(libc::CLOCK_MONOTONIC, &mut ts) };
    ts.tv_sec as u64 * 1_000_000_000 + ts.tv_nsec as u64
}

/// `driver hold`: one contender of an ownership race. Tries to open once (after spinning until
/// `--start-at`), records the outcome in the ledger, holds the handle for a while if it won.
fn hold(args: &Args) -> i32 {
    let root = std::path::PathBuf::from(args.get("root").expect("--root"));
    let mut ledger = AckLog::open(args.get("ledger").expect("--ledger"));
    let id = args.str("id", "0");
    let n_ops = args.u64("n-ops", 3);
    let start_at = args.u64("start-at", 0);
    let hold_ms = args.u64("hold-ms", 3);
    while mono_ns() < start_at {
        std::hint::spin_loop();
    }
    let cfg = config(n_ops, true, false, !args.has("no-scan"), false);
    match cassadilia::Cas::<Vec<u8>>::open(&root, cfg) {
        Ok(cas) => {
            ledger.line(format!("acquired {id} {}", mono_ns()));
            if args.has("populate") {
                for i in 0..3u8 {
                    if let Ok(mut tx) = cas.put(vec![i]) {
                        let _ = tx.write(&[i; 20]);
                        let _ = tx.finish();
                    }
                }
            }
            let release_file = format!("{}.release", args.get("ledger").unwrap());
            let t0 = std::time::Instant::now();
            while t0.elapsed().as_millis() < u128::from(hold_ms) {
                if std::path::Path::new(&release_file).exists() {
                    break;
                }
                std::thread::sleep(std::time::Duration::from_micros(200));
            }
            ledger.line(format!("releasing {id} {}", mono_ns()));
            drop(cas);
            0
        }
        Err(cassadilia::LibError::AlreadyOpened) => {
            ledger.line(format!("lost {id} {}", mono_ns()));
            0
        }
        Err(e) => {
            ledger.line(format!("error {id} {} {}", mono_ns(), err_chain(&e).replace('\n', " ")));
            0
        }
    }
}

fn main() {
    let args = Args::from_env();
    let cmd = args.positional(0).unwrap_or("").to_string();
    let kt = args.str("ktype", "bytes");
    if cmd == "hold" {
        std::process::exit(hold(&args));
    }
    let code = match (cmd.as_str(), kt.as_str()) {
        ("run", "string") => run::<String>(&args),
        ("run", _) => run::<Vec<u8>>(&args),
        ("recover", "string") => recover::<String>(&args),
        ("recover", _) => recover::<Vec<u8>>(&args),
        _ => {
            eprintln!("usage: driver run|recover ...");
            2
        }
    };
    std::process::exit(code);
}
