//! mirimon: the part of C16 / C17 / C18 that runs under Miri (undefined behaviour, overflow,
//! out-of-bounds in the codecs, the hash<->path functions and the one `unsafe` block on the read
//! path, `read_blob_range`). Also runs natively (then it is simply a small extra workload, and
//! the workload for valgrind memcheck).
//!
//! usage: mirimon [seed] [rounds] [scratch-dir]     prints `MIRIMON ok checks=<n>` or `MIRIMON FAIL ...`

use std::collections::BTreeMap;
use std::num::NonZeroU64;
use std::path::PathBuf;

use cassadilia::verif::codec;
use cassadilia::{BlobHash, IndexStateItem, KeyBytes, WalOp, WalOpRaw};

struct R(u64);
impl R {
    fn next(&mut self) -> u64 {
        self.0 = self.0.wrapping_add(0x9E37_79B9_7F4A_7C15);
        let mut z = self.0;
        z = (z ^ (z >> 30)).wrapping_mul(0xBF58_476D_1CE4_E5B9);
        z = (z ^ (z >> 27)).wrapping_mul(0x94D0_49BB_1331_11EB);
        z ^ (z >> 31)
    }
    fn below(&mut self, n: u64) -> u64 {
        self.next() % n
    }
    fn bytes(&mut self, n: usize) -> Vec<u8> {
        (0..n).map(|_| self.next() as u8).collect()
    }
}

fn fail(msg: String) -> ! {
    println!("MIRIMON FAIL {msg}");
    std::process::exit(1);
}

fn main() {
    let a: Vec<String> = std::env::args().collect();
    let seed: u64 = a.get(1).and_then(|s| s.parse().ok()).unwrap_or(1);
    let rounds: u64 = a.get(2).and_then(|s| s.parse().ok()).unwrap_or(30);
    let scratch: PathBuf = a.get(3).map(PathBuf::from).unwrap_or_else(std::env::temp_dir);
    let mut r = R(seed);
    let mut checks = 0u64;

    for _ in 0..rounds {
        // --- key encodings
        let x = r.next();
        for ok in [
            u64::from_key_bytes(x.to_key_bytes().as_ref()) == Some(x),
            i128::from_key_bytes((x as i128).to_key_bytes().as_ref()) == Some(x as i128),
            u8::from_key_bytes((x as u8).to_key_bytes().as_ref()) == Some(x as u8),
            <[u8; 4]>::from_key_bytes(&(x as u32).to_le_bytes()) == Some((x as u32).to_le_bytes()),
            u64::from_key_bytes(&[1, 2, 3]).is_none(),
            String::from_key_bytes(&[0xff, 0xfe]).is_none(),
        ] {
            checks += 1;
            if !ok {
                fail(format!("key encoding law broken for {x}"));
            }
        }
        // --- op round trip + typed conversion
        let klen = r.below(40) as usize;
        let key = r.bytes(klen);
        let hash = BlobHash(r.bytes(32).try_into().unwrap());
        let raw = if r.below(2) == 0 {
            WalOpRaw::Put { key_bytes: key.clone(), hash, size: r.next() }
        } else {
            let n = r.below(4) as usize;
            WalOpRaw::Remove {
                keys_bytes: (0..n)
                    .map(|_| {
                        let l = r.below(9) as usize;
                        r.bytes(l)
                    })
                    .collect(),
            }
        };
        let enc = codec::serialize_wal_op_raw(&raw).unwrap_or_else(|e| fail(format!("serialize: {e}")));
        let back = codec::deserialize_wal_op_raw(&enc).unwrap_or_else(|e| fail(format!("deserialize: {e}")));
        let enc2 = codec::serialize_wal_op_raw(&back).unwrap();
        checks += 1;
        if enc != enc2 {
            fail("op does not round-trip".into());
        }
        let typed = WalOp::<Vec<u8>>::from_raw(back).unwrap_or_else(|e| fail(format!("from_raw: {e}")));
        checks += 1;
        if codec::serialize_wal_op_raw(&typed.to_raw()).unwrap() != enc {
            fail("typed op does not round-trip".into());
        }
        // --- totality: truncations and patched length fields, random bytes
        for cut in 0..enc.len() {
            let _ = codec::deserialize_wal_op_raw(&enc[..cut]);
            checks += 1;
        }
        for off in 0..enc.len().saturating_sub(3) {
            for v in [0u32, 1, u32::MAX, 1 << 31] {
                let mut m = enc.clone();
                m[off..off + 4].copy_from_slice(&v.to_le_bytes());
                let _ = codec::deserialize_wal_op_raw(&m);
                let _ = codec::deserialize_index_state(&m);
                checks += 2;
            }
        }
        let junk_len = r.below(60) as usize;
        let junk = r.bytes(junk_len);
        let _ = codec::deserialize_wal_op_raw(&junk);
        let _ = codec::deserialize_index_state(&junk);
        // --- snapshot round trip
        let mut map: BTreeMap<Vec<u8>, IndexStateItem> = BTreeMap::new();
        for _ in 0..r.below(5) {
            let l = r.below(12) as usize;
            map.insert(r.bytes(l), IndexStateItem { blob_hash: BlobHash(r.bytes(32).try_into().unwrap()), blob_size: r.next() });
        }
        let ver = NonZeroU64::new(r.next() >> r.below(64));
        let senc = codec::serialize_index_state(&map, ver);
        match codec::deserialize_index_state(&senc) {
            Ok((m2, v2)) if m2 == map && v2 == ver => checks += 1,
            _ => fail("snapshot does not round-trip".into()),
        }
        for cut in 0..senc.len() {
            let _ = codec::deserialize_index_state(&senc[..cut]);
            checks += 1;
        }
        // --- hash <-> path
        let p = hash.relative_path();
        match BlobHash::from_relative_path(&p) {
            Ok(h2) if h2 == hash => checks += 1,
            _ => fail(format!("path of {hash} does not parse back")),
        }
        let _ = BlobHash::from_relative_path(&PathBuf::from(String::from_utf8_lossy(&junk).to_string()));
        let _ = BlobHash::from_hex(&String::from_utf8_lossy(&junk));
        checks += 2;
    }

    // --- ranged blob read through the crate's unsafe read loop
    let root = scratch.join(format!("mirimon-{}-{seed}", std::process::id()));
    for l in [0usize, 1, 5, 44, 300] {
        let content: Vec<u8> = (0..l).map(|i| (i * 7 + 3) as u8).collect();
        let hash = BlobHash([l as u8; 32]);
        let path = root.join("cas").join(hash.relative_path());
        if let Err(e) = std::fs::create_dir_all(path.parent().unwrap()).and_then(|()| std::fs::write(&path, &content)) {
            println!("MIRIMON note: cannot create files here ({e}); ranged reads skipped");
            break;
        }
        let l64 = l as u64;
        for s in 0..=l64 + 1 {
            for e in [s, s + 1, l64.saturating_sub(1), l64, l64 + 1, l64 + 100] {
                let got = cassadilia::verif::read_blob_range(&root, &hash, s, e);
                checks += 1;
                match got {
                    Err(_) if s > e => {}
                    Ok(b) if s <= e => {
                        let hi = e.min(l64).max(s.min(l64)) as usize;
                        let lo = s.min(l64) as usize;
                        if b.as_ref() != &content[lo..hi] {
                            fail(format!("read_blob_range L={l} [{s},{e}) returned {} bytes, want {}", b.len(), hi - lo));
                        }
                    }
                    other => fail(format!("read_blob_range L={l} [{s},{e}): {:?}", other.map(|b| b.len()).map_err(|e| e.to_string()))),
                }
            }
        }
    }
    let _ = std::fs::remove_dir_all(&root);
    println!("MIRIMON ok checks={checks}");
}
