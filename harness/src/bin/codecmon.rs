//! codecmon: codec laws, decoder totality and allocation bounds (C16), range reads against slice
//! semantics for all bounds (C17), content-only blob identity and the hash<->path bijection (C18).
//!
//! The parent re-executes itself as short-lived children (`--child <mode> --shard i`), because a
//! decoder that allocates from an attacker-controlled length aborts the process instead of
//! unwinding: the child's death (exit 77 from the allocation guard, SIGABRT, panic exit) is the
//! observation.
//!
//! usage: codecmon --mode codec|range|identity --seed S [--thorough] [--out report.json]

use std::collections::{BTreeMap, BTreeSet};
use std::num::NonZeroU64;
use std::path::{Path, PathBuf};
use std::process::{Command, Stdio};

use cassadilia::verif::codec;
use cassadilia::{BlobHash, Cas, IndexStateItem, KeyBytes, WalOp, WalOpRaw};
use cassadilia_verif::alloc::{self, Counting};
use cassadilia_verif::disk;
use cassadilia_verif::fsx;
use cassadilia_verif::json::{J, hex};
use cassadilia_verif::model::{b3, rel_path_of};
use cassadilia_verif::oracle::{RangeExpect, range_expect};
use cassadilia_verif::report::{Args, Finding, Report};
use cassadilia_verif::rng::Rng;
use cassadilia_verif::session::{config, err_chain};

#[global_allocator]
static GLOBAL: Counting = Counting;

fn replay(mode: &str, seed: u64, shard: u64, thorough: bool, case: &str) -> J {
    let mut argv = vec![
        "--mode".to_string(),
        mode.to_string(),
        "--seed".into(),
        seed.to_string(),
        "--only-shard".into(),
        shard.to_string(),
    ];
    if thorough {
        argv.push("--thorough".into());
    }
    J::obj()
        .set("engine", J::s("codecmon"))
        .set("argv", J::Arr(argv.into_iter().map(J::Str).collect()))
        .set("case", J::s(case))
}

fn catch<T>(f: impl FnOnce() -> T) -> Result<T, String> {
    std::panic::catch_unwind(std::panic::AssertUnwindSafe(f)).map_err(|p| {
        if let Some(s) = p.downcast_ref::<String>() {
            s.clone()
        } else if let Some(s) = p.downcast_ref::<&str>() {
            (*s).to_string()
        } else {
            "panic".into()
        }
    })
}

struct Ctx {
    rep: Report,
    mode: String,
    seed: u64,
    shard: u64,
    thorough: bool,
}

impl Ctx {
    fn fail(&mut self, props: &[&'static str], kind: &str, site: &str, detail: String) {
        let r = replay(&self.mode, self.seed, self.shard, self.thorough, &detail);
        self.rep.violate(Finding::new(props, kind, site, detail), r);
    }
}

// ------------------------------------------------------------------ C16: key encodings

fn key_roundtrip<K: KeyBytes + PartialEq + std::fmt::Debug>(c: &mut Ctx, k: &K, name: &str) {
    c.rep.evaluations += 1;
    let b = k.to_key_bytes();
    let owned = k.to_key_bytes_owned();
    if b.as_ref() != owned.as_slice() {
        c.fail(&["C16"], "to_key_bytes and to_key_bytes_owned disagree", name, format!("{k:?}"));
    }
    match catch(|| K::from_key_bytes(b.as_ref())) {
        Ok(Some(back)) if back == *k => {}
        Ok(other) => c.fail(
            &["C16"],
            "key byte encoding does not round-trip",
            name,
            format!("{k:?} -> {} -> {other:?}", hex(b.as_ref())),
        ),
        Err(p) => c.fail(&["C16"], "from_key_bytes panicked", name, format!("{k:?}: {p}")),
    }
}

fn keys_phase(c: &mut Ctx, rng: &mut Rng, n_random: u64) {
    for v in 0..=u8::MAX {
        key_roundtrip(c, &v, "u8");
        key_roundtrip(c, &(v as i8), "i8");
    }
    for v in 0..=u16::MAX {
        key_roundtrip(c, &v, "u16");
        key_roundtrip(c, &(v as i16), "i16");
    }
    c.rep.count("key_types_exhaustive", 4);
    for _ in 0..n_random {
        let x = rng.next_u64();
        let y = rng.next_u64();
        key_roundtrip(c, &(x as i32), "i32");
        key_roundtrip(c, &(x as u32), "u32");
        key_roundtrip(c, &(x as i64), "i64");
        key_roundtrip(c, &x, "u64");
        let w = (u128::from(x) << 64) | u128::from(y);
        key_roundtrip(c, &w, "u128");
        key_roundtrip(c, &(w as i128), "i128");
        let len = rng.range(0, 40) as usize;
        let bytes = rng.bytes(len);
        key_roundtrip(c, &bytes, "Vec<u8>");
        let s: String = (0..rng.range(0, 12))
            .map(|_| char::from_u32(rng.below(0x11_0000) as u32).unwrap_or('\u{fffd}'))
            .collect();
        key_roundtrip(c, &s, "String");
        let a4: [u8; 4] = rng.bytes(4).try_into().unwrap();
        key_roundtrip(c, &a4, "[u8;4]");
        let a0: [u8; 0] = [];
        key_roundtrip(c, &a0, "[u8;0]");
        let a33: [u8; 33] = rng.bytes(33).try_into().unwrap();
        key_roundtrip(c, &a33, "[u8;33]");
        // wrong lengths and invalid UTF-8 must give None, not panic
        let wrong = rng.bytes_between(0, 20);
        for (name, r) in [
            ("u64", catch(|| u64::from_key_bytes(&wrong).is_some() && wrong.len() != 8)),
            ("i128", catch(|| i128::from_key_bytes(&wrong).is_some() && wrong.len() != 16)),
            ("[u8;4]", catch(|| <[u8; 4]>::from_key_bytes(&wrong).is_some() && wrong.len() != 4)),
        ] {
            match r {
                Ok(false) => {}
                Ok(true) => c.fail(&["C16"], "from_key_bytes accepted a wrong length", name, hex(&wrong)),
                Err(p) => c.fail(&["C16"], "from_key_bytes panicked", name, p),
            }
        }
        match catch(|| String::from_key_bytes(&wrong)) {
            Ok(r) => {
                if r.is_some() != std::str::from_utf8(&wrong).is_ok() {
                    c.fail(&["C16"], "String key decoding disagrees with UTF-8 validity", "String", hex(&wrong));
                }
            }
            Err(p) => c.fail(&["C16"], "from_key_bytes panicked", "String", p),
        }
    }
}

// ------------------------------------------------------------------ C16: ops and snapshots

fn raw_eq(a: &WalOpRaw, b: &WalOpRaw) -> bool {
    match (a, b) {
        (
            WalOpRaw::Put { key_bytes: k1, hash: h1, size: s1 },
            WalOpRaw::Put { key_bytes: k2, hash: h2, size: s2 },
        ) => k1 == k2 && h1 == h2 && s1 == s2,
        (WalOpRaw::Remove { keys_bytes: a }, WalOpRaw::Remove { keys_bytes: b }) => a == b,
        _ => false,
    }
}

fn op_roundtrip(c: &mut Ctx, raw: &WalOpRaw) -> Option<Vec<u8>> {
    c.rep.evaluations += 1;
    let enc = match catch(|| codec::serialize_wal_op_raw(raw)) {
        Ok(Ok(e)) => e,
        Ok(Err(e)) => {
            c.fail(&["C16"], "serializing a log operation failed", "wal op", format!("{raw:?}: {e}"));
            return None;
        }
        Err(p) => {
            c.fail(&["C16"], "serializing a log operation panicked", "wal op", p);
            return None;
        }
    };
    match catch(|| codec::deserialize_wal_op_raw(&enc)) {
        Ok(Ok(back)) if raw_eq(raw, &back) => {}
        Ok(other) => c.fail(
            &["C16"],
            "log operation does not round-trip",
            "wal op",
            format!("{raw:?} -> {} -> {:?}", hex(&enc[..enc.len().min(80)]), other.map(|_| "different value")),
        ),
        Err(p) => c.fail(&["C16"], "decoding a valid log operation panicked", "wal op", p),
    }
    // the independent decoder of the documented format must agree
    match (raw, disk::parse_op(&enc)) {
        (WalOpRaw::Put { key_bytes, hash, size }, Ok(disk::DOp::Put { key, hash: h, size: s }))
            if *key_bytes == key && hash.0 == h && *size == s => {}
        (WalOpRaw::Remove { keys_bytes }, Ok(disk::DOp::Remove { keys })) if *keys_bytes == keys => {}
        (_, other) => c.fail(
            &["C16"],
            "encoded log operation does not follow the documented format",
            "wal op",
            format!("{raw:?}: independent decoder says {other:?}"),
        ),
    }
    Some(enc)
}

fn typed_roundtrip<K: KeyBytes + Clone + PartialEq + std::fmt::Debug>(c: &mut Ctx, op: &WalOp<K>, name: &str) {
    c.rep.evaluations += 1;
    match catch(|| WalOp::<K>::from_raw(op.to_raw())) {
        Ok(Ok(back)) if back == *op => {}
        Ok(other) => c.fail(&["C16"], "WalOp to_raw/from_raw does not round-trip", name, format!("{op:?} -> {other:?}")),
        Err(p) => c.fail(&["C16"], "WalOp conversion panicked", name, p),
    }
}

fn snapshot_roundtrip(c: &mut Ctx, map: &BTreeMap<Vec<u8>, IndexStateItem>, ver: Option<NonZeroU64>) -> Option<Vec<u8>> {
    c.rep.evaluations += 1;
    let enc = match catch(|| codec::serialize_index_state(map, ver)) {
        Ok(e) => e,
        Err(p) => {
            c.fail(&["C16"], "serializing an index snapshot panicked", "snapshot", p);
            return None;
        }
    };
    match catch(|| codec::deserialize_index_state(&enc)) {
        Ok(Ok((back, v))) if back == *map && v == ver => {}
        Ok(other) => c.fail(
            &["C16"],
            "index snapshot does not round-trip",
            "snapshot",
            format!("{} entries version {ver:?}: {:?}", map.len(), other.map(|(m, v)| (m.len(), v))),
        ),
        Err(p) => c.fail(&["C16"], "decoding a valid snapshot panicked", "snapshot", p),
    }
    match disk::parse_snapshot(&enc) {
        Ok(s) => {
            let same = s.version == ver.map_or(0, |v| v.get())
                && s.entries.len() == map.len()
                && s.entries.iter().all(|(k, h, sz)| map.get(k).is_some_and(|i| i.blob_hash.0 == *h && i.blob_size == *sz));
            if !same {
                c.fail(&["C16"], "encoded snapshot does not follow the documented format", "snapshot", format!("{} entries", map.len()));
            }
        }
        Err(e) => c.fail(&["C16"], "encoded snapshot does not follow the documented format", "snapshot", e),
    }
    Some(enc)
}

/// Snapshot round trip through the typed entry point: the map is ordered by K's own `Ord`, which
/// for integers differs from the byte order of their little-endian encoding.
fn typed_snapshot_roundtrip<K: KeyBytes + Ord + Clone + std::fmt::Debug>(c: &mut Ctx, keys: &[K], name: &str, rng: &mut Rng) {
    c.rep.evaluations += 1;
    let mut map: BTreeMap<K, IndexStateItem> = BTreeMap::new();
    for k in keys {
        map.insert(k.clone(), IndexStateItem { blob_hash: rand_hash(rng), blob_size: rand_size(rng) });
    }
    let ver = NonZeroU64::new(rng.range(1, 1000));
    let enc = match catch(|| codec::serialize_index_state(&map, ver)) {
        Ok(e) => e,
        Err(p) => {
            c.fail(&["C16"], "serializing a typed index snapshot panicked", name, p);
            return;
        }
    };
    match catch(|| codec::deserialize_index_state(&enc)) {
        Ok(Ok((back, v))) => {
            let want: BTreeMap<Vec<u8>, IndexStateItem> = map.iter().map(|(k, i)| (k.to_key_bytes_owned(), *i)).collect();
            if back != want || v != ver {
                c.fail(&["C16"], "typed index snapshot does not round-trip", name, format!("{} keys {:?}", keys.len(), &keys[..keys.len().min(4)]));
            }
            // and every key must convert back
            for kb in back.keys() {
                if K::from_key_bytes(kb).is_none() {
                    c.fail(&["C16"], "a snapshot key does not convert back to its key type", name, hex(kb));
                }
            }
        }
        Ok(Err(e)) => c.fail(
            &["C16"],
            "a valid index snapshot of this key type is rejected by the decoder",
            name,
            format!("{} keys {:?}: {e}", keys.len(), &keys[..keys.len().min(6)]),
        ),
        Err(p) => c.fail(&["C16"], "decoding a valid typed snapshot panicked", name, p),
    }
}

fn typed_snapshots_phase(c: &mut Ctx, rng: &mut Rng, rounds: u64) {
    macro_rules! ints {
        ($($t:ty),*) => {$(
            {
                // order by value differs from order by little-endian bytes
                let edge: Vec<$t> = vec![0 as $t, 1 as $t, 255u8 as $t, (256u16 as $t), (<$t>::MAX), (<$t>::MIN), (0 as $t).wrapping_sub(1), 2 as $t];
                typed_snapshot_roundtrip(c, &edge, stringify!($t), rng);
                for _ in 0..rounds {
                    let n = rng.range(2, 12) as usize;
                    let ks: Vec<$t> = (0..n).map(|_| rng.next_u64() as $t).collect();
                    typed_snapshot_roundtrip(c, &ks, stringify!($t), rng);
                    let small: Vec<$t> = (0..n).map(|_| rng.below(1024) as $t).collect();
                    typed_snapshot_roundtrip(c, &small, stringify!($t), rng);
                }
            }
        )*};
    }
    ints!(u8, i8, u16, i16, u32, i32, u64, i64, u128, i128);
    for _ in 0..rounds {
        let strs: Vec<String> = (0..rng.range(1, 8)).map(|_| (0..rng.range(0, 6)).map(|_| char::from_u32(rng.below(0x250) as u32).unwrap_or('x')).collect()).collect();
        typed_snapshot_roundtrip(c, &strs, "String", rng);
        let arrs: Vec<[u8; 4]> = (0..rng.range(1, 8)).map(|_| rng.bytes(4).try_into().unwrap()).collect();
        typed_snapshot_roundtrip(c, &arrs, "[u8;4]", rng);
        let vecs: Vec<Vec<u8>> = (0..rng.range(1, 8)).map(|_| rng.bytes_between(0, 9)).collect();
        typed_snapshot_roundtrip(c, &vecs, "Vec<u8>", rng);
    }
    c.rep.count("typed_snapshot_key_types", 13);
}

fn rand_hash(rng: &mut Rng) -> BlobHash {
    match rng.below(4) {
        0 => BlobHash([0; 32]),
        1 => BlobHash([0xff; 32]),
        _ => BlobHash(rng.bytes(32).try_into().unwrap()),
    }
}

fn rand_size(rng: &mut Rng) -> u64 {
    match rng.below(6) {
        0 => 0,
        1 => u64::MAX,
        2 => u64::from(u32::MAX),
        3 => u64::from(u32::MAX) + 1,
        _ => rng.next_u64() >> rng.below(64),
    }
}

fn rand_key_bytes(rng: &mut Rng, big: bool) -> Vec<u8> {
    let len = match rng.below(10) {
        0 => 0,
        1 if big => rng.range(60_000, 70_000) as usize,
        2 => rng.range(250, 260) as usize,
        _ => rng.range(0, 24) as usize,
    };
    rng.bytes(len)
}

fn ops_phase(c: &mut Ctx, rng: &mut Rng, n_random: u64) -> Vec<Vec<u8>> {
    let mut valid_encodings = Vec::new();
    // exhaustive over a tiny alphabet
    let alphabet: [Vec<u8>; 4] = [vec![], vec![0], vec![255], vec![0, 0]];
    for k in &alphabet {
        for h in [BlobHash([0; 32]), BlobHash([0xff; 32])] {
            for s in [0u64, 1, u64::MAX] {
                if let Some(e) = op_roundtrip(c, &WalOpRaw::Put { key_bytes: k.clone(), hash: h, size: s }) {
                    valid_encodings.push(e);
                }
            }
        }
    }
    let mut lists: Vec<Vec<Vec<u8>>> = vec![vec![]];
    for a in &alphabet {
        lists.push(vec![a.clone()]);
        for b in &alphabet {
            lists.push(vec![a.clone(), b.clone()]);
            for d in &alphabet {
                lists.push(vec![a.clone(), b.clone(), d.clone()]);
            }
        }
    }
    for l in lists {
        if let Some(e) = op_roundtrip(c, &WalOpRaw::Remove { keys_bytes: l }) {
            if valid_encodings.len() < 200 {
                valid_encodings.push(e);
            }
        }
    }
    c.rep.count("ops_exhaustive_small_domain", 1);
    for i in 0..n_random {
        let raw = if rng.chance(1, 2) {
            WalOpRaw::Put { key_bytes: rand_key_bytes(rng, i % 50 == 0), hash: rand_hash(rng), size: rand_size(rng) }
        } else {
            let n = rng.range(0, 6) as usize;
            WalOpRaw::Remove { keys_bytes: (0..n).map(|_| rand_key_bytes(rng, i % 97 == 0)).collect() }
        };
        if let Some(e) = op_roundtrip(c, &raw)
            && valid_encodings.len() < 400
            && e.len() < 600
        {
            valid_encodings.push(e);
        }
        // typed conversions
        let h = rand_hash(rng);
        let s = rand_size(rng);
        typed_roundtrip(c, &WalOp::<u64>::Put { key: rng.next_u64(), hash: h, size: s }, "u64");
        typed_roundtrip(c, &WalOp::<i128>::Remove { keys: vec![rng.next_u64() as i128, -1, i128::MIN] }, "i128");
        typed_roundtrip(c, &WalOp::<Vec<u8>>::Put { key: rand_key_bytes(rng, false), hash: h, size: s }, "Vec<u8>");
        typed_roundtrip(
            c,
            &WalOp::<String>::Remove { keys: vec![String::new(), "\u{10ffff}".into(), "k".repeat(rng.usize(9))] },
            "String",
        );
    }
    valid_encodings
}

fn snapshots_phase(c: &mut Ctx, rng: &mut Rng, n_random: u64) -> Vec<Vec<u8>> {
    let mut valid = Vec::new();
    let alphabet: [Vec<u8>; 4] = [vec![], vec![0], vec![255], vec![0, 0]];
    for mask in 0u32..16 {
        for ver in [None, NonZeroU64::new(1), NonZeroU64::new(u64::MAX)] {
            for size in [0u64, u64::MAX] {
                let mut m = BTreeMap::new();
                for (i, k) in alphabet.iter().enumerate() {
                    if mask & (1 << i) != 0 {
                        m.insert(k.clone(), IndexStateItem { blob_hash: BlobHash([i as u8; 32]), blob_size: size });
                    }
                }
                if let Some(e) = snapshot_roundtrip(c, &m, ver) {
                    valid.push(e);
                }
            }
        }
    }
    c.rep.count("snapshots_exhaustive_small_domain", 1);
    if n_random >= 50 {
        // counts beyond 8- and 16-bit fields: 70 000 entries / 70 000 removed keys
        let mut big = BTreeMap::new();
        for i in 0..70_000u32 {
            big.insert(i.to_be_bytes().to_vec(), IndexStateItem { blob_hash: BlobHash([(i % 251) as u8; 32]), blob_size: u64::from(i) });
        }
        snapshot_roundtrip(c, &big, NonZeroU64::new(70_000));
        let keys: Vec<Vec<u8>> = (0..70_000u32).map(|i| if i % 3 == 0 { vec![] } else { i.to_le_bytes().to_vec() }).collect();
        op_roundtrip(c, &WalOpRaw::Remove { keys_bytes: keys });
        c.rep.count("large_count_roundtrips", 2);
    }
    for i in 0..n_random {
        let n = if i % 40 == 0 { rng.range(100, 300) } else { rng.range(0, 8) } as usize;
        let mut m = BTreeMap::new();
        for _ in 0..n {
            m.insert(rand_key_bytes(rng, i % 200 == 0), IndexStateItem { blob_hash: rand_hash(rng), blob_size: rand_size(rng) });
        }
        let ver = NonZeroU64::new(rand_size(rng));
        if let Some(e) = snapshot_roundtrip(c, &m, ver)
            && valid.len() < 300
            && e.len() < 700
        {
            valid.push(e);
        }
    }
    valid
}

// ------------------------------------------------------------------ C16: totality + allocation

const ALLOC_SLOPE: u64 = 32;
const ALLOC_SLACK: u64 = 4096;

fn total_one(c: &mut Ctx, input: &[u8], which: &str) {
    c.rep.evaluations += 1;
    alloc::set_case(input);
    let (r, m) = alloc::measure(|| {
        catch(|| match which {
            "op" => codec::deserialize_wal_op_raw(input).map(|_| ()).map_err(|e| e.to_string()),
            _ => codec::deserialize_index_state(input).map(|_| ()).map_err(|e| e.to_string()),
        })
    });
    match r {
        Ok(Ok(())) => c.rep.count(&format!("decode_{which}_ok"), 1),
        Ok(Err(_)) => c.rep.count(&format!("decode_{which}_err"), 1),
        Err(p) => c.fail(
            &["C16"],
            &format!("the {which} decoder panicked on arbitrary bytes"),
            which,
            format!("input {} bytes [{}]: {p}", input.len(), hex(&input[..input.len().min(64)])),
        ),
    }
    let bound = ALLOC_SLOPE * input.len() as u64 + ALLOC_SLACK;
    if m.peak > bound {
        c.fail(
            &["C16"],
            &format!("the {which} decoder allocated far more than its input"),
            which,
            format!("input {} bytes [{}]: peak {} bytes (bound {bound})", input.len(), hex(&input[..input.len().min(48)]), m.peak),
        );
    }
    c.rep.max("max_decoder_peak_bytes", m.peak);
}

fn mutate_and_decode(c: &mut Ctx, valid: &[u8], which: &str) {
    // truncation at every offset
    for cut in 0..valid.len() {
        total_one(c, &valid[..cut], which);
    }
    // every aligned-or-not u32 window overwritten with boundary values
    for off in 0..valid.len().saturating_sub(3) {
        let rem = (valid.len() - off - 4) as u64;
        for v in [0u64, 1, rem.saturating_sub(1), rem, rem + 1, 1 << 31, u64::from(u32::MAX)] {
            let mut m = valid.to_vec();
            m[off..off + 4].copy_from_slice(&(v as u32).to_le_bytes());
            total_one(c, &m, which);
        }
    }
}

fn totality_phase(c: &mut Ctx, rng: &mut Rng, valid_ops: &[Vec<u8>], valid_snaps: &[Vec<u8>], n_random: u64, n_mutants: usize) {
    alloc::REFUSE_ABOVE.store(1 << 30, std::sync::atomic::Ordering::Relaxed);
    // all strings of length <= 3 over a reduced alphabet
    let alpha = [0u8, 1, 2, 255];
    total_one(c, &[], "op");
    total_one(c, &[], "snapshot");
    for a in alpha {
        total_one(c, &[a], "op");
        total_one(c, &[a], "snapshot");
        for b in alpha {
            total_one(c, &[a, b], "op");
            total_one(c, &[a, b], "snapshot");
            for d in alpha {
                total_one(c, &[a, b, d], "op");
                total_one(c, &[a, b, d], "snapshot");
            }
        }
    }
    // headers claiming huge counts / lengths
    for count in [1u32, 2, 1000, 1 << 20, 1 << 31, u32::MAX] {
        let mut op = vec![1u8];
        op.extend_from_slice(&count.to_le_bytes());
        total_one(c, &op, "op");
        op.extend_from_slice(&[0u8; 4]);
        total_one(c, &op, "op");
        let mut put = vec![0u8];
        put.extend_from_slice(&count.to_le_bytes());
        total_one(c, &put, "op");
        let mut snap = 7u64.to_le_bytes().to_vec();
        snap.extend_from_slice(&count.to_le_bytes());
        total_one(c, &snap, "snapshot");
        snap.extend_from_slice(&count.to_le_bytes());
        total_one(c, &snap, "snapshot");
    }
    for _ in 0..n_random {
        let len = if rng.chance(1, 10) { rng.range(0, 4096) } else { rng.range(0, 96) } as usize;
        let mut b = rng.bytes(len);
        if !b.is_empty() && rng.chance(1, 2) {
            b[0] = rng.below(2) as u8; // valid tag, garbage behind it
        }
        total_one(c, &b, "op");
        total_one(c, &b, "snapshot");
    }
    for v in valid_ops.iter().take(n_mutants) {
        mutate_and_decode(c, v, "op");
    }
    for v in valid_snaps.iter().take(n_mutants) {
        mutate_and_decode(c, v, "snapshot");
    }
    alloc::REFUSE_ABOVE.store(0, std::sync::atomic::Ordering::Relaxed);
}

fn paths_totality(c: &mut Ctx, rng: &mut Rng, n: u64) {
    use std::ffi::OsStr;
    use std::os::unix::ffi::OsStrExt;
    for i in 0..n {
        c.rep.evaluations += 1;
        let raw: Vec<u8> = match i % 5 {
            0 => rng.bytes_between(0, 90),
            1 => {
                // near-miss of a valid path
                let h = hex(&rng.bytes(32));
                let mut s = format!("{}/{}/{}", &h[0..2], &h[2..4], &h[4..]).into_bytes();
                let at = rng.usize(s.len());
                s[at] = rng.below(256) as u8;
                s
            }
            2 => {
                let h = hex(&rng.bytes(32)).to_uppercase();
                format!("{}/{}/{}", &h[0..2], &h[2..4], &h[4..]).into_bytes()
            }
            3 => {
                let h = hex(&rng.bytes(32));
                format!("{}/{}/{}", &h[0..3], &h[3..4], &h[4..]).into_bytes()
            }
            _ => {
                let h = hex(&rng.bytes_between(0, 40));
                format!("x/{}/{}/{}", &h[0..h.len().min(2)], "zz", h).into_bytes()
            }
        };
        let raw: Vec<u8> = raw.into_iter().filter(|b| *b != 0).collect();
        let p = PathBuf::from(OsStr::from_bytes(&raw));
        if let Err(e) = catch(|| BlobHash::from_relative_path(&p).is_ok()) {
            c.fail(&["C16"], "the blob path decoder panicked", "from_relative_path", format!("{}: {e}", hex(&raw)));
        }
        if let Ok(s) = std::str::from_utf8(&raw)
            && let Err(e) = catch(|| BlobHash::from_hex(s).is_ok())
        {
            c.fail(&["C16"], "the hex decoder panicked", "from_hex", format!("{}: {e}", hex(&raw)));
        }
    }
}

/// Crafted `index` and segment files handed to `Cas::open`: the result must be Ok or Err.
fn crafted_files(c: &mut Ctx, rng: &mut Rng, n: u64, valid_snaps: &[Vec<u8>], valid_ops: &[Vec<u8>]) {
    for i in 0..n {
        c.rep.evaluations += 1;
        let root = fsx::fresh_path("craft");
        std::fs::create_dir_all(&root).unwrap();
        let mut desc = String::new();
        let kind = i % 6;
        let record = |ver: u64, payload: &[u8], len_field: Option<u32>, good_sum: bool| -> Vec<u8> {
            let mut r = ver.to_le_bytes().to_vec();
            let sum = if good_sum { b3(payload) } else { [0x5a; 32] };
            r.extend_from_slice(&sum);
            r.extend_from_slice(&len_field.unwrap_or(payload.len() as u32).to_le_bytes());
            r.extend_from_slice(payload);
            r
        };
        match kind {
            0 => {
                let b = rng.bytes_between(0, 200);
                desc = format!("index = random {} bytes", b.len());
                std::fs::write(root.join("index"), b).unwrap();
            }
            1 if !valid_snaps.is_empty() => {
                let mut b = rng.pick(valid_snaps).clone();
                match rng.below(3) {
                    0 => b.truncate(rng.usize(b.len() + 1)),
                    1 => b.extend_from_slice(&rng.bytes_between(1, 9)),
                    _ => {
                        if b.len() >= 12 {
                            b[8..12].copy_from_slice(&u32::MAX.to_le_bytes());
                        }
                    }
                }
                desc = format!("index = damaged snapshot {}", hex(&b[..b.len().min(40)]));
                std::fs::write(root.join("index"), b).unwrap();
            }
            2 => {
                let b = rng.bytes_between(0, 300);
                desc = format!("0_index.wal = random {} bytes", b.len());
                std::fs::write(root.join("0_index.wal"), b).unwrap();
            }
            3 if !valid_ops.is_empty() => {
                // valid first record, then a header whose length field lies
                let mut seg = record(1, rng.pick(valid_ops).as_slice(), None, true);
                let lie = *rng.pick(&[0u32, 1, 1 << 20, 1 << 31, u32::MAX]);
                seg.extend_from_slice(&record(2, b"xx", Some(lie), true));
                desc = format!("segment with length field {lie}");
                std::fs::write(root.join("0_index.wal"), seg).unwrap();
            }
            4 if !valid_ops.is_empty() && rng.chance(1, 2) => {
                // well-formed, checksummed Put records carrying extreme sizes
                let mut seg = Vec::new();
                for v in 1..=3u64 {
                    let raw = WalOpRaw::Put {
                        key_bytes: vec![v as u8],
                        hash: BlobHash([v as u8; 32]),
                        size: *rng.pick(&[u64::MAX, u64::MAX - 1, 1 << 63, 1]),
                    };
                    let payload = codec::serialize_wal_op_raw(&raw).unwrap();
                    seg.extend_from_slice(&record(v, &payload, None, true));
                }
                desc = "segment of valid Put records with sizes near u64::MAX".to_string();
                std::fs::write(root.join("0_index.wal"), seg).unwrap();
            }
            4 if !valid_ops.is_empty() => {
                // checksummed garbage payloads and strange versions
                let garbage = rng.bytes_between(1, 60);
                let ver = *rng.pick(&[1u64, 2, u64::MAX, u64::MAX - 1]);
                let seg = record(ver, &garbage, None, true);
                desc = format!("segment with checksummed garbage payload, version {ver}");
                std::fs::write(root.join("0_index.wal"), seg).unwrap();
            }
            _ => {
                let name = *rng.pick(&["18446744073709551615_index.wal", "x_index.wal", "_index.wal", "01_index.wal"]);
                std::fs::write(root.join(name), rng.bytes(50)).unwrap();
                desc = format!("strange segment name {name}");
            }
        }
        if desc.is_empty() {
            fsx::rm_rf(&root);
            continue;
        }
        let r = catch(|| Cas::<Vec<u8>>::open(&root, config(3, true, false, true, false)).map(|_| ()).map_err(|e| err_chain(&e)));
        match r {
            Ok(Ok(())) => c.rep.count("crafted_open_ok", 1),
            Ok(Err(_)) => c.rep.count("crafted_open_err", 1),
            Err(p) => c.fail(
                &["C16"],
                "opening a store with crafted index/log files panicked",
                "Cas::open on crafted files",
                format!("{desc}: {p}"),
            ),
        }
        fsx::rm_rf(&root);
    }
}

fn child_codec(c: &mut Ctx) {
    let mut rng = Rng::derive(c.seed ^ 0xC16, c.shard);
    let t = c.thorough;
    match c.shard % 4 {
        0 => keys_phase(c, &mut rng, if t { 200_000 } else { 4000 }),
        1 => {
            let n = if t { 200_000 } else { 4000 };
            let ops = ops_phase(c, &mut rng, n);
            let snaps = snapshots_phase(c, &mut rng, n / 4);
            typed_snapshots_phase(c, &mut rng, if t { 2000 } else { 60 });
            c.rep.distinct.extend(ops.iter().chain(snaps.iter()).map(|e| u64::from_le_bytes(b3(e)[0..8].try_into().unwrap())));
        }
        2 => {
            let ops = ops_phase(c, &mut rng, 300);
            let snaps = snapshots_phase(c, &mut rng, 100);
            let before = c.rep.evaluations;
            totality_phase(c, &mut rng, &ops, &snaps, if t { 400_000 } else { 20_000 }, if t { 120 } else { 14 });
            c.rep.count("totality_inputs", c.rep.evaluations - before);
        }
        _ => {
            let ops = ops_phase(c, &mut rng, 100);
            let snaps = snapshots_phase(c, &mut rng, 50);
            paths_totality(c, &mut rng, if t { 400_000 } else { 20_000 });
            crafted_files(c, &mut rng, if t { 6000 } else { 400 }, &snaps, &ops);
        }
    }
    if c.rep.samples.is_empty() {
        c.rep.sample(J::obj().set("shard", J::u(c.shard)).set(
            "what",
            J::s(match c.shard % 4 {
                0 => "key byte encodings: exhaustive u8/i8/u16/i16, random for the other types",
                1 => "log operation and snapshot round trips + agreement with the independent decoder",
                2 => "decoder totality and allocation bound on arbitrary, truncated and length-patched inputs",
                _ => "blob path / hex decoding and Cas::open on crafted index and segment files",
            }),
        ));
    }
}

// ------------------------------------------------------------------ C17: range cube

fn content_of(l: usize, salt: u8) -> Vec<u8> {
    (0..l).map(|i| (i as u8).wrapping_mul(31).wrapping_add(salt)).collect()
}

fn check_range_call(c: &mut Ctx, cas: &Cas<u64>, key: u64, content: &[u8], s: u64, e: u64) {
    c.rep.evaluations += 1;
    let l = content.len() as u64;
    alloc::set_case(format!("L={l} start={s} end={e}").as_bytes());
    let (r, m) = alloc::measure(|| catch(|| cas.get_range(&key, s, e)));
    let site = "get_range";
    match r {
        Err(p) => c.fail(&["C17"], "get_range panicked", site, format!("L={l} start={s} end={e}: {p}")),
        Ok(got) => match (range_expect(content, s, e), got) {
            (RangeExpect::Bytes(w), Ok(Some(b))) => {
                if b.as_ref() != w.as_slice() {
                    c.fail(
                        &["C17"],
                        "get_range returned bytes other than the slice",
                        site,
                        format!("L={l} start={s} end={e}: want {} bytes, got {} bytes", w.len(), b.len()),
                    );
                }
            }
            (RangeExpect::Error, Err(_)) => c.rep.count("rejected_start_gt_end", 1),
            (RangeExpect::Error, Ok(x)) => c.fail(
                &["C17"],
                "get_range accepted start > end",
                site,
                format!("L={l} start={s} end={e}: {:?}", x.map(|b| b.len())),
            ),
            (RangeExpect::Bytes(_), other) => c.fail(
                &["C17"],
                "get_range failed or reported absent on a valid request",
                site,
                format!("L={l} start={s} end={e}: {:?}", other.map(|o| o.map(|b| b.len())).map_err(|e| e.to_string())),
            ),
        },
    }
    if m.peak > l + 2048 {
        c.fail(
            &["C17"],
            "get_range allocated more than the blob length",
            site,
            format!("L={l} start={s} end={e}: peak {} bytes", m.peak),
        );
    }
    c.rep.max("max_range_peak_over_len", m.peak.saturating_sub(l));
}

fn child_range(c: &mut Ctx) {
    let mut rng = Rng::derive(c.seed ^ 0xC17, c.shard);
    let root = fsx::fresh_path("range");
    let cas = match Cas::<u64>::open(&root, config(1000, true, false, false, false)) {
        Ok(x) => x,
        Err(e) => {
            c.rep.inconclusive.push(format!("open failed: {e}"));
            return;
        }
    };
    let put = |k: u64, data: &[u8]| {
        let mut tx = cas.put(k).unwrap();
        tx.write(data).unwrap();
        tx.finish().unwrap();
    };
    // a guard well above any legitimate request; an unclamped end-start would trip it
    alloc::REFUSE_ABOVE.store(64 << 20, std::sync::atomic::Ordering::Relaxed);
    let extremes = |l: u64| -> Vec<u64> {
        vec![
            0,
            1,
            l.saturating_sub(1),
            l,
            l + 1,
            (1 << 32) - 1,
            1 << 32,
            (1 << 32) + 1,
            1 << 63,
            u64::MAX - 1,
            u64::MAX,
        ]
    };
    if c.shard % 2 == 0 {
        // exhaustive small cube: shard/2 selects a residue class of L
        let classes = 4;
        let cls = (c.shard / 2) % classes;
        let max_l = if c.thorough { 72 } else { 40 };
        for l in (0..=max_l).filter(|l| (*l as u64) % classes == cls) {
            let content = content_of(l, 7);
            put(l as u64, &content);
            for s in 0..=(l as u64 + 2) {
                for e in 0..=(l as u64 + 2) {
                    check_range_call(c, &cas, l as u64, &content, s, e);
                }
            }
            for s in extremes(l as u64) {
                for e in extremes(l as u64) {
                    check_range_call(c, &cas, l as u64, &content, s, e);
                }
            }
            // size and stream
            c.rep.evaluations += 1;
            if cas.get_size(&(l as u64)).ok().flatten() != Some(l as u64) {
                c.fail(&["C17"], "get_size is not the blob length", "get_size", format!("L={l}"));
            }
            use std::io::Read;
            let mut buf = Vec::new();
            match cas.get_reader(&(l as u64)) {
                Ok(Some(mut r)) => {
                    let _ = r.read_to_end(&mut buf);
                    if buf != content {
                        c.fail(&["C17"], "get_reader does not stream all bytes", "get_reader", format!("L={l}: got {}", buf.len()));
                    }
                }
                other => c.fail(&["C17"], "get_reader failed", "get_reader", format!("L={l}: {:?}", other.map(|o| o.is_some()).map_err(|e| e.to_string()))),
            }
            c.rep.distinct.insert(0xC17_0000 + l as u64);
        }
        c.rep.count("lengths_exhaustive", 1);
    } else {
        let bigs: &[usize] = &[8191, 8192, 8193, 65_536, (1 << 20) - 1, 1 << 20, (1 << 20) + 1];
        let l = bigs[((c.shard / 2) as usize) % bigs.len()];
        let content = content_of(l, 3);
        put(9_000_000, &content);
        for s in extremes(l as u64) {
            for e in extremes(l as u64) {
                check_range_call(c, &cas, 9_000_000, &content, s, e);
            }
        }
        let n = if c.thorough { 20_000 } else { 1500 };
        for _ in 0..n {
            let pick = |rng: &mut Rng| -> u64 {
                match rng.below(5) {
                    0 => rng.below(l as u64 + 3),
                    1 => l as u64 - rng.below(64).min(l as u64),
                    2 => rng.below(64),
                    3 => rng.next_u64(),
                    _ => rng.below(l as u64 + 1),
                }
            };
            let s = pick(&mut rng);
            let e = pick(&mut rng);
            check_range_call(c, &cas, 9_000_000, &content, s, e);
        }
        c.rep.distinct.insert(0xC17_1000 + l as u64);
    }
    alloc::REFUSE_ABOVE.store(0, std::sync::atomic::Ordering::Relaxed);
    drop(cas);
    fsx::rm_rf(&root);
    if c.rep.samples.is_empty() {
        c.rep.sample(J::obj().set("shard", J::u(c.shard)).set(
            "what",
            J::s(if c.shard % 2 == 0 {
                "all (start,end) in [0,L+2]^2 and all pairs of extreme bounds for every L of a residue class"
            } else {
                "one large blob: all pairs of extreme bounds plus random triples"
            }),
        ));
    }
}

// ------------------------------------------------------------------ C18: identity

fn compositions(n: usize) -> Vec<Vec<usize>> {
    // all ordered compositions of n into positive parts (2^(n-1)), n <= 6
    if n == 0 {
        return vec![vec![]];
    }
    let mut out = Vec::new();
    for mask in 0u32..(1 << (n - 1)) {
        let mut parts = Vec::new();
        let mut cur = 1;
        for i in 0..n - 1 {
            if mask & (1 << i) != 0 {
                parts.push(cur);
                cur = 1;
            } else {
                cur += 1;
            }
        }
        parts.push(cur);
        out.push(parts);
    }
    out
}

fn child_identity(c: &mut Ctx) {
    let mut rng = Rng::derive(c.seed ^ 0xC18, c.shard);
    if c.shard % 2 == 0 {
        // where a blob lands depends on the hash only, whatever the database root is called: half
        // of these shards use a root whose name is not valid UTF-8 (legal on Linux)
        let top = fsx::fresh_path("ident");
        let root = if c.shard % 4 == 2 {
            use std::os::unix::ffi::OsStrExt;
            let _ = std::fs::create_dir_all(&top);
            c.rep.count("roots_with_non_utf8_name", 1);
            top.join(std::ffi::OsStr::from_bytes(b"donn\xe9es \xff\xfe"))
        } else {
            top.clone()
        };
        let cas = Cas::<u64>::open(&root, config(1000, c.shard % 4 == 0, false, false, false)).expect("open");
        let mut key = 0u64;
        let mut one = |c: &mut Ctx, content: &[u8], chunks: &[usize], key: u64| {
            c.rep.evaluations += 1;
            let r = (|| -> Result<(), String> {
                let mut tx = cas.put(key).map_err(|e| err_chain(&e))?;
                let mut p = 0;
                for ch in chunks {
                    tx.write(&content[p..p + ch]).map_err(|e| err_chain(&e))?;
                    p += ch;
                }
                if p != content.len() {
                    return Err("harness: chunks do not cover the content".into());
                }
                tx.finish().map_err(|e| err_chain(&e))
            })();
            if let Err(e) = r {
                c.fail(&["C18"], "a chunked put failed", "put", format!("len {} chunks {chunks:?}: {e}", content.len()));
                return;
            }
            let item = cas.read_index_state().get_item(&key);
            let want = b3(content);
            match item {
                Some(i) => {
                    if i.blob_hash.0 != want {
                        c.fail(&["C18"], "committed hash is not BLAKE3 of the whole content", "chunking", format!("len {} chunks {chunks:?}", content.len()));
                    }
                    if i.blob_size != content.len() as u64 {
                        c.fail(&["C18"], "recorded size is not the content length", "chunking", format!("len {} chunks {chunks:?}: size {}", content.len(), i.blob_size));
                    }
                }
                None => c.fail(&["C18"], "key absent after finish", "put", format!("chunks {chunks:?}")),
            }
            let p = root.join("cas").join(rel_path_of(&want));
            match std::fs::read(&p) {
                Ok(b) if b == content => {}
                Ok(b) => c.fail(&["C18", "C06"], "the file at the derived path holds other bytes", "placement", format!("len {} chunks {chunks:?}: file has {} bytes", content.len(), b.len())),
                Err(e) => c.fail(&["C18"], "no file at the path derived from the hash", "placement", format!("len {} chunks {chunks:?}: {e}", content.len())),
            }
        };
        // exhaustive: contents of length <= 6, all compositions, with empty chunks sprinkled in
        let max_n = if c.thorough { 7 } else { 6 };
        for n in 0..=max_n {
            let content: Vec<u8> = (0..n).map(|i| (i * 37 + 1 + (c.shard as usize)) as u8).collect();
            for comp in compositions(n) {
                key += 1;
                one(c, &content, &comp, key);
                let mut with_empty = vec![0];
                for p in &comp {
                    with_empty.push(*p);
                    with_empty.push(0);
                }
                key += 1;
                one(c, &content, &with_empty, key);
                c.rep.distinct_case(format!("{n}:{comp:?}").as_bytes());
            }
        }
        c.rep.count("compositions_exhaustive_up_to_len", max_n as u64);
        // random chunkings around buffer sizes
        let rounds = if c.thorough { 600 } else { 60 };
        for _ in 0..rounds {
            let len = *rng.pick(&[8191usize, 8192, 8193, 16_384, 65_536, 65_537, 100_000, 196_608, 300_000]);
            let mut content = rng.bytes(len);
            let mut chunks = Vec::new();
            let mut left = len;
            let mut style = rng.below(6);
            // contents with long constant runs (sparse-file / run-length style shortcuts show here),
            // each run written by write calls of its own
            match rng.below(6) {
                0 => {
                    content = vec![0u8; len];
                    let piece = *rng.pick(&[65_536usize, 8192, 100_000]);
                    let mut rest = len;
                    while rest > 0 {
                        let c = rest.min(piece);
                        chunks.push(c);
                        rest -= c;
                    }
                    left = 0;
                    style = 0;
                }
                1 => {
                    let head = rng.range(1, 20_000) as usize % len;
                    content[head..].iter_mut().for_each(|b| *b = 0);
                    chunks = vec![head, len - head];
                    left = 0;
                }
                2 => {
                    let head = rng.range(1, 20_000) as usize % len;
                    content[head..].iter_mut().for_each(|b| *b = 0);
                    chunks.push(head);
                    let mut rest = len - head;
                    while rest > 0 {
                        let c = rest.min(65_536);
                        chunks.push(c);
                        rest -= c;
                    }
                    left = 0;
                }
                3 => {
                    let tail = rng.range(1, 20_000) as usize % len;
                    content[..len - tail].iter_mut().for_each(|b| *b = 0xff);
                    chunks = vec![len - tail, tail];
                    left = 0;
                }
                _ => {}
            }
            if style >= 4 && left > 0 {
                // small header(s) first, then everything else in one large write (and the mirror)
                let head = rng.range(1, 200) as usize;
                if style == 4 {
                    chunks.push(head);
                    chunks.push(len - head);
                } else {
                    chunks.push(len - head);
                    chunks.push(head);
                }
                left = 0;
            }
            while left > 0 {
                let ch = match style {
                    0 => 1.min(left) + rng.usize(3).min(left - 1.min(left)),
                    1 => rng.range(8000, 9000) as usize,
                    2 => rng.range(0, 40_000) as usize,
                    _ => rng.range(0, 300) as usize,
                }
                .min(left);
                chunks.push(ch);
                left -= ch;
                if chunks.len() > 20_000 {
                    chunks.push(left);
                    left = 0;
                }
            }
            key += 1;
            one(c, &content, &chunks, key);
            c.rep.distinct_case(format!("r{len}:{}", chunks.len()).as_bytes());
        }
        // something already lies at the destination (a torn file an earlier crash left behind, a
        // damaged blob the caller re-puts to repair it): the committed bytes still end up there
        let rounds = if c.thorough { 120 } else { 24 };
        for r in 0..rounds {
            let len = *rng.pick(&[1usize, 17, 4096, 8193, 70_000]);
            let content = rng.bytes(len);
            let p = root.join("cas").join(rel_path_of(&b3(&content)));
            let leftover: Vec<u8> = match r % 4 {
                0 => Vec::new(),
                1 => content[..len / 2].to_vec(),
                2 => {
                    let mut v = content.clone();
                    v[len / 2] ^= 0x40;
                    v
                }
                _ => {
                    let mut v = content.clone();
                    v.extend_from_slice(b"tail");
                    v
                }
            };
            let planted = std::fs::create_dir_all(p.parent().unwrap()).and_then(|_| std::fs::write(&p, &leftover));
            if planted.is_err() {
                c.rep.inconclusive.push(format!("could not plant a leftover at {}", p.display()));
                continue;
            }
            key += 1;
            let chunks = if r % 2 == 0 { vec![len] } else { vec![len / 3, len - len / 3] };
            one(c, &content, &chunks, key);
            c.rep.count("commits_over_a_leftover_file", 1);
            c.rep.distinct_case(format!("left{len}:{}", r % 4).as_bytes());
        }
        drop(cas);
        // nothing may have been created next to the root (a path built from a lossy rendering of
        // the root's name lands in a sibling directory)
        if root != top {
            let siblings: Vec<String> = std::fs::read_dir(&top)
                .map(|rd| rd.flatten().map(|e| e.file_name().to_string_lossy().to_string()).collect())
                .unwrap_or_default();
            if siblings.len() != 1 {
                c.fail(&["C18"], "files were created outside the database root", "placement", format!("next to the root: {siblings:?}"));
            }
        }
        fsx::rm_rf(&top);
    } else {
        // hash <-> path bijection
        let mut seen: BTreeSet<PathBuf> = BTreeSet::new();
        let mut n_hashes = 0u64;
        let mut check = |c: &mut Ctx, h: [u8; 32], seen: &mut BTreeSet<PathBuf>| {
            c.rep.evaluations += 1;
            let bh = BlobHash(h);
            let p = bh.relative_path();
            let want = rel_path_of(&h);
            if p != Path::new(&want) {
                c.fail(&["C18"], "relative_path is not the documented 2+2+60 lower-case hex layout", "relative_path", format!("{} -> {}", hex(&h), p.display()));
            }
            match catch(|| BlobHash::from_relative_path(&p)) {
                Ok(Ok(back)) if back == bh => {}
                other => c.fail(&["C18"], "a blob path does not parse back to its hash", "from_relative_path", format!("{} -> {:?}", hex(&h), other.map(|r| r.map(|b| b.to_hex()))),),
            }
            let full = Path::new("/some/where/cas").join(&p);
            match BlobHash::from_relative_path(&full) {
                Ok(back) if back == bh => {}
                _ => c.fail(&["C18"], "a prefixed blob path does not parse back to its hash", "from_relative_path", hex(&h)),
            }
            if !seen.insert(p.clone()) {
                c.fail(&["C18"], "two distinct hashes map to the same path", "relative_path", hex(&h));
            }
        };
        for bg in [0u8, 0xff] {
            for pos in 0..32 {
                for v in 0..=255u8 {
                    if v == bg {
                        continue;
                    }
                    let mut h = [bg; 32];
                    h[pos] = v;
                    check(c, h, &mut seen);
                    n_hashes += 1;
                }
            }
            check(c, [bg; 32], &mut seen);
        }
        let n = if c.thorough { 300_000 } else { 20_000 };
        for _ in 0..n {
            let h: [u8; 32] = rng.bytes(32).try_into().unwrap();
            if seen.contains(Path::new(&rel_path_of(&h))) {
                continue;
            }
            check(c, h, &mut seen);
            n_hashes += 1;
        }
        c.rep.count("hashes_checked", n_hashes);
        c.rep.distinct.extend((0..n_hashes.min(50_000)).map(|i| 0xC18_0000_0000 + i));
    }
    if c.rep.samples.is_empty() {
        c.rep.sample(J::obj().set("shard", J::u(c.shard)).set(
            "what",
            J::s(if c.shard % 2 == 0 {
                "every composition of contents up to 6 bytes into write calls (with and without empty chunks) + random chunkings around 8 KiB / 64 KiB"
            } else {
                "hash<->path: every single-byte deviation from all-zero and all-ones hashes, plus random hashes; injectivity by set insertion"
            }),
        ));
    }
}

// ------------------------------------------------------------------ parent

fn main() {
    let args = Args::from_env();
    let _guard = fsx::ScratchGuard;
    let mode = args.str("mode", "codec");
    let seed = args.u64("seed", 1);
    let thorough = args.has("thorough");
    if let Some(child_mode) = args.get("child") {
        let shard = args.u64("shard", 0);
        let mut c = Ctx { rep: Report::new("codecmon"), mode: child_mode.to_string(), seed, shard, thorough };
        match child_mode {
            "codec" => child_codec(&mut c),
            "range" => child_range(&mut c),
            _ => child_identity(&mut c),
        }
        c.rep.emit(args.get("out"));
        return;
    }
    let shards: Vec<u64> = match args.get("only-shard") {
        Some(s) => vec![s.parse().expect("--only-shard")],
        None => {
            let n = match mode.as_str() {
                "codec" => {
                    if thorough { 32 } else { 8 }
                }
                "range" => {
                    if thorough { 30 } else { 22 }
                }
                _ => {
                    if thorough { 16 } else { 6 }
                }
            };
            (0..n).collect()
        }
    };
    let started = std::time::Instant::now();
    let exe = std::env::current_exe().unwrap();
    let base = fsx::fresh_path("codec-out");
    std::fs::create_dir_all(&base).unwrap();
    let mut total = Report::new("codecmon");
    let threads = args.u64("threads", 16) as usize;
    let next = std::sync::atomic::AtomicUsize::new(0);
    let results: std::sync::Mutex<Vec<Report>> = std::sync::Mutex::new(Vec::new());
    std::thread::scope(|s| {
        for _ in 0..threads.min(shards.len()).max(1) {
            s.spawn(|| {
                loop {
                    let i = next.fetch_add(1, std::sync::atomic::Ordering::Relaxed);
                    if i >= shards.len() {
                        break;
                    }
                    let shard = shards[i];
                    let out = base.join(format!("shard-{shard}.json"));
                    let mut cmd = Command::new(&exe);
                    cmd.args(["--child", &mode, "--shard", &shard.to_string(), "--seed", &seed.to_string(), "--out"])
                        .arg(&out)
                        .stdin(Stdio::null())
                        .stdout(Stdio::null())
                        .stderr(Stdio::piped());
                    if thorough {
                        cmd.arg("--thorough");
                    }
                    let mut rep = Report::new("codecmon");
                    match cmd.output() {
                        Ok(o) => {
                            let stderr = String::from_utf8_lossy(&o.stderr).to_string();
                            let parsed = std::fs::read_to_string(&out).ok().and_then(|t| J::parse(&t).ok());
                            use std::os::unix::process::ExitStatusExt;
                            if o.status.success() && parsed.is_some() {
                                let j = parsed.unwrap();
                                rep.evaluations = j.get("evaluations").and_then(|x| x.as_i64()).unwrap_or(0) as u64;
                                let d = j.get("distinct_nontrivial").and_then(|x| x.as_i64()).unwrap_or(0) as u64;
                                rep.distinct.extend((0..d).map(|x| (shard << 32) | x));
                                if let Some(J::Obj(cs)) = j.get("counters") {
                                    for (k, v) in cs {
                                        let n = v.as_i64().unwrap_or(0) as u64;
                                        if k.starts_with("max_") {
                                            rep.max(k, n);
                                        } else {
                                            rep.count(k, n);
                                        }
                                    }
                                }
                                if let Some(a) = j.get("samples").and_then(|x| x.as_arr()) {
                                    for s in a {
                                        rep.sample(s.clone());
                                    }
                                }
                                if let Some(a) = j.get("violations").and_then(|x| x.as_arr()) {
                                    for v in a {
                                        let props: Vec<&'static str> = ["C06", "C16", "C17", "C18"]
                                            .into_iter()
                                            .filter(|p| {
                                                v.get("props").and_then(|x| x.as_arr()).is_some_and(|ps| ps.iter().any(|q| q.as_str() == Some(p)))
                                            })
                                            .collect();
                                        rep.violate(
                                            Finding::new(
                                                &props,
                                                v.get("kind").and_then(|x| x.as_str()).unwrap_or(""),
                                                v.get("site").and_then(|x| x.as_str()).unwrap_or(""),
                                                v.get("detail").and_then(|x| x.as_str()).unwrap_or("").to_string(),
                                            ),
                                            v.get("replay").cloned().unwrap_or(J::Null),
                                        );
                                    }
                                }
                            } else {
                                // the child died: that is the observation
                                let prop: &'static str = match mode.as_str() {
                                    "codec" => "C16",
                                    "range" => "C17",
                                    _ => "C18",
                                };
                                let how = if o.status.code() == Some(77) {
                                    "requested an allocation far beyond its input (allocation guard)"
                                } else if o.status.signal().is_some() {
                                    "aborted the process"
                                } else {
                                    "ended the process abnormally"
                                };
                                let line = stderr
                                    .lines()
                                    .find(|l| {
                                        l.contains("ALLOC-GUARD")
                                            || l.contains("panicked")
                                            || l.contains("memory allocation")
                                            || l.contains("AddressSanitizer")
                                    })
                                    .unwrap_or("")
                                    .to_string();
                                rep.evaluations += 1;
                                rep.violate(
                                    Finding::new(
                                        &[prop],
                                        &format!("code under test {how}"),
                                        &format!("{mode} shard"),
                                        format!("shard {shard}: exit {:?} signal {:?}: {line}", o.status.code(), o.status.signal()),
                                    ),
                                    replay(&mode, seed, shard, thorough, &line),
                                );
                            }
                        }
                        Err(e) => rep.inconclusive.push(format!("could not spawn child: {e}")),
                    }
                    results.lock().unwrap().push(rep);
                }
            });
        }
    });
    for r in results.into_inner().unwrap() {
        total.merge(r);
    }
    fsx::rm_rf(&base);
    total.count("shards", shards.len() as u64);
    total.count("wall_ms", started.elapsed().as_millis() as u64);
    total.emit(args.get("out"));
}
