//! crashmon: process-kill at every filesystem call (C03, C06, C08, C12, C20), power-loss images
//! rebuilt from the call trace (C09), and single I/O faults at every call (C14).
//!
//! usage: crashmon --mode kill|power|fail --seed S --cases N [--thorough] [--threads T]
//!                 [--case I [--k K]] [--out report.json]

use std::collections::{BTreeMap, BTreeSet};
use std::path::{Path, PathBuf};
use std::sync::Mutex;
use std::sync::atomic::{AtomicUsize, Ordering};
use std::time::Duration;

use cassadilia_verif::child::{
    AckInfo, RecoverDump, ShimEnv, Tools, parse_acklog, parse_dump, run_driver,
};
use cassadilia_verif::disk;
use cassadilia_verif::fsx;
use cassadilia_verif::generator::{Gen, GenCfg};
use cassadilia_verif::json::{J, hex};
use cassadilia_verif::keys::TestKey;
use cassadilia_verif::model::{Hash32, Model, b3, rel_path_of};
use cassadilia_verif::ops::{Content, Op, enc_script};
use cassadilia_verif::oracle::{Observable, check_cas_files_intact, hash_of_rel_path};
use cassadilia_verif::report::{Args, Finding, Report};
use cassadilia_verif::rng::Rng;
use cassadilia_verif::session::{ModelRunner, Outcome};
use cassadilia_verif::trace::{self, Ev, PowerSim};

const WATCHDOG: Duration = Duration::from_secs(60);
/// first watchdog of a fault-injection run (a history of ten operations: milliseconds when healthy)
const FAIL_WATCHDOG: Duration = Duration::from_secs(25);

#[derive(Clone)]
struct Params {
    mode: String,
    seed: u64,
    thorough: bool,
    tools: Tools,
    only_k: Option<u64>,
}

struct Case<K: TestKey> {
    id: u64,
    class: &'static str,
    ktype: &'static str,
    n_ops: u64,
    sync: bool,
    ops: Vec<Op<K>>,
    cont: Vec<Op<K>>,
}

impl<K: TestKey> Case<K> {
    fn script(&self) -> String {
        format!(
            "# case={} class={} ktype={} n_ops={} sync={}\n{}",
            self.id,
            self.class,
            self.ktype,
            self.n_ops,
            self.sync,
            enc_script(&self.ops)
        )
    }
}

fn ktype_of<K: TestKey>() -> &'static str {
    if K::NAME == "String" { "string" } else { "bytes" }
}

/// Deterministic case construction. Classes are built to cross what C03/C09/C14 name: segment
/// rollover, explicit checkpoints, shared contents, records larger than the 8 KiB I/O buffer,
/// interleaved and abandoned transactions, in-process reopen, async mode.
fn build_case<K: TestKey>(p: &Params, id: u64) -> Case<K> {
    let mut rng = Rng::derive(p.seed ^ 0xC3A5, id);
    let class_id = id % 10;
    let (class, n_ops, sync): (&'static str, u64, bool) = match class_id {
        // first-time initialisation WITH the pre-created tree of 65 536 directories; kill points
        // are sampled (every non-mkdir call, a dozen of the mkdirs)
        9 if p.mode == "kill" => ("pre-create", 3, true),
        // one content above 4 MiB written with a single call (early-writeback / staged-sync
        // shortcuts live at such sizes), between small ones
        9 if p.mode == "power" => ("large-blob", 1000, true),
        9 => ("transactions", 3, true),
        7 if p.mode == "kill" => ("cross-device-shards", 1000, true),
        7 => ("rollover", 2, true),
        // one range removal over ~300 keys (more than one byte counts, more than any batch size)
        8 if p.mode == "kill" => ("wide-range", *rng.pick(&[50u64, 1000]), true),
        8 => ("checkpoint-shared", 3, true),
        0 => ("rollover", *rng.pick(&[1u64, 2, 3]), true),
        1 => ("checkpoint-shared", *rng.pick(&[2u64, 3, 1000]), true),
        2 => ("large-record", *rng.pick(&[2u64, 3, 1000]), true),
        3 => ("transactions", *rng.pick(&[2u64, 3, 5]), true),
        4 => ("reopen", *rng.pick(&[1u64, 2, 3]), true),
        5 => ("async", *rng.pick(&[2u64, 3]), p.mode == "power"),
        // more than ten segments: ids 9 and 10 order differently as numbers and as file names
        _ => ("many-segments", 2, true),
    };
    let len = if p.thorough { rng.range(8, 16) } else { rng.range(6, 10) } as usize;
    let mut gc = GenCfg {
        n_keys: 3,
        n_contents: 3,
        allow_tx: class == "transactions",
        allow_abort: class == "transactions",
        allow_reopen: class == "reopen",
        allow_checkpoint: class != "rollover",
        allow_range: true,
        allow_big: false,
        max_len: if p.mode == "power" { 9000 } else { 20_000 },
        allow_pre_create_flip: false,
    };
    if class == "checkpoint-shared" {
        gc.n_contents = 2;
    }
    let mut g: Gen<K> = Gen::new(&mut rng, gc);
    let mut mr: ModelRunner<K> = ModelRunner::new();
    let mut ops: Vec<Op<K>> = Vec::new();
    if class == "large-record" {
        // a single Put record > 8 KiB (long key), then a Remove record > 8 KiB over several
        // long keys, surrounded by ordinary operations
        let long = K::bulk(0, 9000 + rng.usize(3000));
        let wide: Vec<K> = (1..=8).map(|i| K::bulk(i, 1200)).collect();
        ops.push(Op::Put { key: g.keys[0].clone(), content: g.contents[0], chunks: vec![] });
        ops.push(Op::Put { key: long.clone(), content: g.contents[1], chunks: vec![] });
        for k in &wide {
            ops.push(Op::Put { key: k.clone(), content: Content::new(7, 33), chunks: vec![] });
        }
        ops.push(Op::RemoveRange {
            lo: std::ops::Bound::Included(wide[0].clone()),
            hi: std::ops::Bound::Included(wide[wide.len() - 1].clone()),
        });
        ops.push(Op::Put { key: g.keys[1].clone(), content: g.contents[0], chunks: vec![] });
        ops.push(Op::Remove { key: long });
        for op in &ops {
            mr.step(op);
        }
    } else if class == "large-blob" {
        let big = Content::new(990, (4 << 20) + rng.usize(1 << 20));
        ops.push(Op::Put { key: g.keys[0].clone(), content: Content::new(991, 30), chunks: vec![] });
        ops.push(Op::Put { key: g.keys[1].clone(), content: big, chunks: vec![] });
        ops.push(Op::Put { key: g.keys[0].clone(), content: Content::new(992, 31), chunks: vec![] });
        for op in &ops {
            mr.step(op);
        }
    } else if class == "pre-create" {
        for i in 0..4u32 {
            ops.push(Op::Put { key: g.keys[(i % 2) as usize].clone(), content: Content::new(800 + i, 30 + i as usize), chunks: vec![] });
        }
        for op in &ops {
            mr.step(op);
        }
    } else if class == "wide-range" {
        let n = 290 + rng.usize(60);
        for i in 0..n {
            ops.push(Op::Put { key: K::bulk(i, 5), content: Content::new(40 + (i % 2) as u32, 9), chunks: vec![] });
        }
        ops.push(Op::RemoveRange { lo: std::ops::Bound::Unbounded, hi: std::ops::Bound::Unbounded });
        ops.push(Op::Put { key: K::bulk(1, 5), content: Content::new(42, 12), chunks: vec![] });
        for op in &ops {
            mr.step(op);
        }
    } else if class == "cross-device-shards" {
        let c0 = Content::new(300, 5000);
        let c1 = Content::new(301, 40);
        ops.push(Op::Put { key: g.keys[0].clone(), content: c0, chunks: vec![] });
        ops.push(Op::Put { key: g.keys[1].clone(), content: c0, chunks: vec![1000] });
        ops.push(Op::Put { key: g.keys[0].clone(), content: c1, chunks: vec![] });
        ops.push(Op::Remove { key: g.keys[1].clone() });
        for op in &ops {
            mr.step(op);
        }
    } else if class == "many-segments" {
        // 23-25 logged operations over two keys with two operations per segment: the log walks
        // through segments 0..=11, every operation overwrites or removes what the previous
        // not-yet-checkpointed one on that key wrote
        let n = 23 + rng.usize(3);
        for i in 0..n {
            // mostly one key, so that consecutive records (in particular the last one of segment
            // 9 and the first one of segment 10) overwrite each other's value
            let key = g.keys[usize::from(i % 4 == 2)].clone();
            let op = if i % 7 == 3 && mr.model.map.contains_key(&key) {
                Op::Remove { key }
            } else {
                Op::Put { key, content: Content::new(200 + i as u32, 12 + i), chunks: vec![] }
            };
            mr.step(&op);
            ops.push(op);
        }
    } else {
        while ops.len() < len {
            let op = g.next_op(&mut rng, &mr.model);
            mr.step(&op);
            ops.push(op);
        }
        if class == "rollover" && n_ops >= 2 && !mr.model.map.is_empty() {
            // drain: a rollover checkpoint persists a non-empty state that includes key `ka`; `ka`
            // is then removed on its own, and the NEXT operation that rolls the log over is the one
            // that empties the index (an empty state to persist over a non-empty snapshot whose
            // segment is pruned); one more put follows
            let mut probe: ModelRunner<K> = ModelRunner::new();
            let mut v = 0u64;
            for op in &ops {
                if probe.logs_record(op) {
                    v += 1;
                }
                probe.step(op);
            }
            let mut pad = 0u32;
            let mut push = |ops: &mut Vec<Op<K>>, mr: &mut ModelRunner<K>, op: Op<K>| {
                mr.step(&op);
                ops.push(op);
            };
            let mut pad_put = |pad: &mut u32| -> Op<K> {
                *pad += 1;
                Op::Put { key: K::bulk(901, 6), content: Content::new(950 + *pad, 14 + *pad as usize), chunks: vec![] }
            };
            while v % n_ops != 0 {
                let op = pad_put(&mut pad);
                push(&mut ops, &mut mr, op);
                v += 1;
            }
            let ka = K::bulk(900, 6);
            push(&mut ops, &mut mr, Op::Put { key: ka.clone(), content: Content::new(949, 41), chunks: vec![] });
            push(&mut ops, &mut mr, Op::Remove { key: ka });
            for _ in 0..n_ops.saturating_sub(2) {
                let op = pad_put(&mut pad);
                push(&mut ops, &mut mr, op);
            }
            push(&mut ops, &mut mr, Op::RemoveRange { lo: std::ops::Bound::Unbounded, hi: std::ops::Bound::Unbounded });
            push(&mut ops, &mut mr, Op::Put { key: K::bulk(902, 6), content: Content::new(960, 18), chunks: vec![] });
        }
        if class == "checkpoint-shared" && !ops.iter().any(|o| matches!(o, Op::Checkpoint)) {
            ops.insert(ops.len() / 2, Op::Checkpoint);
        }
        if p.mode == "power" {
            // C09 speaks about synchronous mode only: never switch to Async at a reopen
            for op in ops.iter_mut() {
                if let Op::Reopen { flip_sync, .. } = op {
                    *flip_sync = false;
                }
            }
        }
    }
    // continuation: touch the same keys, checkpoint, overwrite, remove
    let mut cont: Vec<Op<K>> = Vec::new();
    let k0 = g.keys[0].clone();
    let k1 = g.keys[1 % g.keys.len()].clone();
    cont.push(Op::Put { key: k0.clone(), content: Content::new(900, 77), chunks: vec![10] });
    cont.push(Op::Put { key: k1.clone(), content: Content::new(900, 77), chunks: vec![] });
    cont.push(Op::Checkpoint);
    cont.push(Op::Remove { key: k0 });
    cont.push(Op::Put { key: k1, content: g.contents[0], chunks: vec![] });
    Case { id, class, ktype: ktype_of::<K>(), n_ops, sync, ops, cont }
}

/// Removes the cross-device shard directories of one run.
struct XdevGuard(Option<PathBuf>);
impl Drop for XdevGuard {
    fn drop(&mut self) {
        if let Some(p) = &self.0 {
            fsx::rm_rf(p);
        }
    }
}

/// Unusual but legal layout for the class "cross-device-shards": every first-level shard directory
/// `cas/xx` is a symlink to a directory on ANOTHER filesystem (`Cas::open` only checks that the
/// three root directories share one). A commit then cannot rename its staging file into place.
/// Correct code fails such a put cleanly; whatever it does, nothing may appear under a blob's
/// final name that is not the complete blob (C06).
fn prepare_layout<K: TestKey>(case: &Case<K>, root: &Path) -> XdevGuard {
    if case.class != "cross-device-shards" {
        return XdevGuard(None);
    }
    use std::os::unix::fs::MetadataExt;
    let exe = std::env::current_exe().unwrap_or_default();
    let base = std::env::var("VERIF_XDEV")
        .map(PathBuf::from)
        .unwrap_or_else(|_| exe.parent().unwrap_or(Path::new("/")).join("../../../scratch/xdev"));
    let other = base.join(format!("{}-{}", std::process::id(), root.parent().and_then(|p| p.file_name()).map(|s| s.to_string_lossy().to_string()).unwrap_or_default()));
    if std::fs::create_dir_all(&other).is_err() || std::fs::create_dir_all(root.join("cas")).is_err() {
        return XdevGuard(None);
    }
    let same_fs = match (std::fs::metadata(&other), std::fs::metadata(root)) {
        (Ok(a), Ok(b)) => a.dev() == b.dev(),
        _ => true,
    };
    if same_fs {
        // no second filesystem available here: the class degenerates to an ordinary history
        fsx::rm_rf(&other);
        return XdevGuard(None);
    }
    for i in 0..256u32 {
        let name = format!("{i:02x}");
        let _ = std::fs::create_dir_all(other.join(&name));
        let _ = std::os::unix::fs::symlink(other.join(&name), root.join("cas").join(&name));
    }
    XdevGuard(Some(other))
}

struct Dirs {
    base: PathBuf,
}

impl Dirs {
    fn new(tag: &str) -> Self {
        let base = fsx::fresh_path(tag);
        std::fs::create_dir_all(&base).expect("scratch");
        Dirs { base }
    }
    fn root(&self) -> PathBuf {
        self.base.join("db")
    }
    fn file(&self, name: &str) -> PathBuf {
        self.base.join(name)
    }
}

impl Drop for Dirs {
    fn drop(&mut self) {
        fsx::rm_rf(&self.base);
    }
}

fn run_args<K: TestKey>(case: &Case<K>, root: &Path, script: &Path, ack: &Path, observe: bool) -> Vec<String> {
    let mut v = vec![
        "run".to_string(),
        "--root".into(),
        root.display().to_string(),
        "--script".into(),
        script.display().to_string(),
        "--acklog".into(),
        ack.display().to_string(),
        "--ktype".into(),
        case.ktype.into(),
        "--n-ops".into(),
        case.n_ops.to_string(),
        "--sync".into(),
        u8::from(case.sync).to_string(),
    ];
    if observe {
        v.push("--observe".into());
    }
    if case.class == "pre-create" {
        v.push("--pre-create".into());
    }
    v
}

fn recover_args<K: TestKey>(
    case: &Case<K>,
    root: &Path,
    out: &Path,
    cleanup: &str,
    script: Option<&Path>,
) -> Vec<String> {
    let mut v = vec![
        "recover".to_string(),
        "--root".into(),
        root.display().to_string(),
        "--out".into(),
        out.display().to_string(),
        "--ktype".into(),
        case.ktype.into(),
        "--n-ops".into(),
        case.n_ops.to_string(),
        "--cleanup".into(),
        cleanup.into(),
    ];
    if let Some(s) = script {
        v.push("--script".into());
        v.push(s.display().to_string());
    }
    if case.class == "pre-create" {
        v.push("--pre-create".into());
    }
    v
}

fn replay_json<K: TestKey>(p: &Params, case: &Case<K>, k: u64, extra: &str) -> J {
    J::obj()
        .set("engine", J::s("crashmon"))
        .set(
            "argv",
            J::Arr(
                [
                    "--mode".to_string(),
                    p.mode.clone(),
                    "--seed".into(),
                    p.seed.to_string(),
                    "--case".into(),
                    case.id.to_string(),
                    "--k".into(),
                    k.to_string(),
                ]
                .into_iter()
                .chain(if p.thorough { vec!["--thorough".to_string()] } else { vec![] })
                .map(J::Str)
                .collect(),
            ),
        )
        .set("history", J::s(case.script()))
        .set("point", J::s(extra))
}

/// What the acknowledged prefix predicts: model after all acknowledged ops (M0) and, if an
/// operation was in flight, also with that operation applied (M1).
struct Expect<K: TestKey> {
    m0: Model<K>,
    m1: Option<Model<K>>,
    inflight: Option<usize>,
    acked: usize,
    result_mismatch: Vec<String>,
}

fn expectations<K: TestKey>(case: &Case<K>, ack: &AckInfo) -> Expect<K> {
    let mut mr: ModelRunner<K> = ModelRunner::new();
    let mut inflight = None;
    let mut acked = 0;
    let mut mism = Vec::new();
    let mut m1 = None;
    for (i, op) in case.ops.iter().enumerate() {
        match ack.ops.get(&i) {
            Some(a) => match &a.end {
                Some((_, res)) => {
                    if case.class == "cross-device-shards" && res.is_err() {
                        // in this layout a put is allowed to fail cleanly (rename across devices);
                        // a failed put changes nothing
                        acked += 1;
                        continue;
                    }
                    let want = mr.step(op);
                    acked += 1;
                    match res {
                        Ok(o) if *o == want => {}
                        Ok(o) => mism.push(format!("op {i} {}: want {want:?} got {o:?}", op.enc())),
                        Err(e) => mism.push(format!("op {i} {} failed: {e}", op.enc())),
                    }
                }
                None => {
                    inflight = Some(i);
                    let mut alt = mr.clone();
                    alt.step(op);
                    if alt.model != mr.model {
                        m1 = Some(alt.model);
                    }
                    break;
                }
            },
            None => break,
        }
    }
    Expect { m0: mr.model, m1, inflight, acked, result_mismatch: mism }
}

fn model_disk_map<K: TestKey>(m: &Model<K>) -> BTreeMap<Vec<u8>, (Hash32, u64)> {
    m.map.iter().map(|(k, v)| (k.kb(), (b3(v), v.len() as u64))).collect()
}

fn classify_open_error(e: &str) -> String {
    // stable class: strip paths, numbers and hashes
    let mut out = String::new();
    let mut prev_digit = false;
    for c in e.chars() {
        if c.is_ascii_digit() {
            if !prev_digit {
                out.push('#');
            }
            prev_digit = true;
        } else {
            prev_digit = false;
            out.push(c);
        }
    }
    // cut after the first two chain links
    let parts: Vec<&str> = out.split(" <- ").collect();
    let s = parts.iter().take(3).copied().collect::<Vec<_>>().join(" <- ");
    let s = if let Some(i) = s.find("(path:") { s[..i].to_string() } else { s };
    s.chars().take(160).collect()
}

/// Independent computation of what the start-up scan must report, from a directory listing and
/// the set of referenced (hash, size).
struct ScanExpect {
    orphaned: BTreeSet<String>,
    missing: BTreeSet<String>,
    corrupted: BTreeSet<String>,
    invalid: BTreeSet<String>,
    staging: BTreeSet<String>,
}

fn scan_expect(root: &Path, referenced: &BTreeMap<Hash32, u64>) -> ScanExpect {
    let mut se = ScanExpect {
        orphaned: BTreeSet::new(),
        missing: BTreeSet::new(),
        corrupted: BTreeSet::new(),
        invalid: BTreeSet::new(),
        staging: BTreeSet::new(),
    };
    let cas = root.join("cas");
    let mut present: BTreeSet<Hash32> = BTreeSet::new();
    for rel in fsx::files_rec(&cas) {
        match hash_of_rel_path(&rel) {
            Some(h) => {
                present.insert(h);
                match referenced.get(&h) {
                    None => {
                        se.orphaned.insert(hex(&h));
                    }
                    Some(size) => {
                        let bytes = std::fs::read(cas.join(&rel)).unwrap_or_default();
                        if bytes.len() as u64 != *size || b3(&bytes) != h {
                            se.corrupted.insert(hex(&h));
                        }
                    }
                }
            }
            None => {
                se.invalid.insert(format!("cas/{rel}"));
            }
        }
    }
    for h in referenced.keys() {
        if !present.contains(h) {
            se.missing.insert(hex(h));
        }
    }
    for rel in fsx::files_rec(&root.join("staging")) {
        se.staging.insert(format!("staging/{rel}"));
    }
    se
}

fn referenced_of(o: &Observable) -> BTreeMap<Hash32, u64> {
    o.keys.values().map(|(h, s, _)| (*h, *s)).collect()
}

fn check_scan(d: &RecoverDump, se: &ScanExpect, out: &mut Vec<Finding>, site: &str) {
    let set = |v: &Vec<String>| v.iter().cloned().collect::<BTreeSet<String>>();
    let cmp = |name: &str, got: BTreeSet<String>, want: &BTreeSet<String>, out: &mut Vec<Finding>| {
        if got != *want {
            // a staging file of a transaction that died with the process and is not even reported
            // is also "a trace of an abandoned transaction" (C13)
            let props: &[&'static str] = if name == "staging files" { &["C08", "C13"] } else { &["C08"] };
            out.push(Finding::new(
                props,
                &format!("start-up scan reports wrong {name}"),
                site,
                format!(
                    "reported-only {:?}, unreported {:?}",
                    got.difference(want).take(4).collect::<Vec<_>>(),
                    want.difference(&got).take(4).collect::<Vec<_>>()
                ),
            ));
        }
    };
    cmp("orphans", set(&d.orphaned), &se.orphaned, out);
    cmp("missing blobs", set(&d.missing), &se.missing, out);
    cmp("corrupted blobs", set(&d.corrupted), &se.corrupted, out);
    cmp("invalid files", set(&d.invalid_files), &se.invalid, out);
    cmp("staging files", set(&d.staging_files), &se.staging, out);
}

/// Judge one crashed (or power-lost) directory: format (C20), CAS integrity (C06), recovery
/// (C03/C09), scan exactness and clean-up (C08), counts (C12), continuation (C03).
#[allow(clippy::too_many_arguments)]
fn judge_image<K: TestKey>(
    p: &Params,
    case: &Case<K>,
    dirs: &Dirs,
    root: &Path,
    exp: &Expect<K>,
    acked_versions: &BTreeSet<u64>,
    site: &str,
    with_continuation: bool,
    crash_props: &[&'static str],
    format_applies: bool,
    rep: &mut Report,
) -> Vec<Finding> {
    let mut out: Vec<Finding> = Vec::new();
    // --- the crashed directory itself
    if format_applies {
        match disk::decode_db(root, case.n_ops) {
            Err(e) => out.push(Finding::new(&["C20"], "on-disk files are malformed at a crash point", site, e)),
            Ok(st) => {
                let m0 = model_disk_map(&exp.m0);
                let ok = st.map == m0 || exp.m1.as_ref().is_some_and(|m| st.map == model_disk_map(m));
                if !ok {
                    out.push(Finding::new(
                        &["C20"],
                        "snapshot plus log decode to neither the acknowledged history nor that plus the in-flight operation",
                        site,
                        format!(
                            "decoded {} keys (snapshot v{}, max v{}), acked model {} keys",
                            st.map.len(),
                            st.snapshot_version,
                            st.max_version,
                            m0.len()
                        ),
                    ));
                }
                let missing = st.missing_acked(acked_versions);
                if !missing.is_empty() {
                    out.push(Finding::new(
                        &["C20"],
                        "an acknowledged version above the snapshot's is in no segment",
                        site,
                        format!("missing {missing:?}, snapshot v{}", st.snapshot_version),
                    ));
                }
                rep.count("format_checks", 1);
            }
        }
    }
    let n_cas = check_cas_files_intact(root, &mut out);
    rep.count("cas_files_hashed", n_cas as u64);

    // --- recovery by a fresh process
    let dump_path = dirs.file("dump.json");
    let _ = std::fs::remove_file(&dump_path);
    let r = run_driver(
        &p.tools,
        &recover_args(case, root, &dump_path, "none", None),
        &ShimEnv::default(),
        WATCHDOG,
    );
    if r.timed_out {
        rep.inconclusive.push(format!("recover watchdog at {site}"));
        return out;
    }
    let d = parse_dump(&dump_path);
    if !d.raw_present {
        // the child died before writing anything: a panic/abort inside open
        if r.code == Some(101) || r.signal.is_some() {
            out.push(Finding::new(
                crash_props,
                "recovery panicked or aborted",
                site,
                r.stderr.lines().take(6).collect::<Vec<_>>().join(" / "),
            ));
        } else {
            rep.inconclusive.push(format!("recover child left no dump: code {:?} {}", r.code, r.stderr));
        }
        return out;
    }
    if !d.open_ok {
        let e = d.error.clone().unwrap_or_default();
        out.push(Finding::new(
            crash_props,
            &format!("open fails after the crash: {}", classify_open_error(&e)),
            site,
            e,
        ));
        return out;
    }
    let Some(d1) = d.dump1.clone() else {
        rep.inconclusive.push("dump1 missing".into());
        return out;
    };
    let o0 = Observable::of_model(&exp.m0, d1.index_size);
    let diff0 = o0.diff(&d1, true);
    let mut matched: Option<&Model<K>> = None;
    if diff0.is_empty() {
        matched = Some(&exp.m0);
        rep.count("recovered_without_inflight", 1);
    } else if let Some(m1) = &exp.m1 {
        let o1 = Observable::of_model(m1, d1.index_size);
        if o1.diff(&d1, true).is_empty() {
            matched = Some(m1);
            rep.count("recovered_with_inflight", 1);
        }
    }
    if matched.is_none() {
        // attribute: counts only (C12) vs contents (C03)
        let mut props: Vec<&'static str> = crash_props.to_vec();
        if diff0.iter().all(|x| x.starts_with("reference counts") || x.starts_with("stats")) {
            props.push("C12");
        }
        out.push(Finding::new(
            &props,
            "recovered state is neither the acknowledged history nor that plus the in-flight operation",
            site,
            format!(
                "acked {} ops, in-flight {:?}; vs acked: {}",
                exp.acked,
                exp.inflight.map(|i| case.ops[i].enc()),
                diff0.iter().take(4).cloned().collect::<Vec<_>>().join("; ")
            ),
        ));
    }
    // --- what the recovering open left on disk (its own snapshot, the pruned log) is again the
    // acknowledged history, with or without the in-flight operation
    if format_applies {
        match disk::decode_db(root, case.n_ops) {
            Err(e) => out.push(Finding::new(&["C20"], "on-disk files are malformed after recovery", site, e)),
            Ok(st) => {
                let ok = st.map == model_disk_map(&exp.m0) || exp.m1.as_ref().is_some_and(|m| st.map == model_disk_map(m));
                if !ok {
                    out.push(Finding::new(
                        &["C20"],
                        "after recovery snapshot plus log decode to neither the acknowledged history nor that plus the in-flight operation",
                        site,
                        format!(
                            "decoded {} keys (snapshot v{}, max v{}), acked model {} keys",
                            st.map.len(),
                            st.snapshot_version,
                            st.max_version,
                            exp.m0.map.len()
                        ),
                    ));
                }
                rep.count("format_checks_after_recovery", 1);
            }
        }
    }
    if !d.missing.is_empty() || !d.corrupted.is_empty() {
        out.push(Finding::new(
            crash_props,
            "recovery reports missing or corrupted blobs",
            site,
            format!("missing {:?} corrupted {:?}", d.missing, d.corrupted),
        ));
    }
    // --- scan exactness (against listing taken now: the recovering open does not touch cas/)
    let se = scan_expect(root, &referenced_of(&d1));
    check_scan(&d, &se, &mut out, site);
    if !se.orphaned.is_empty() {
        rep.count("images_with_orphans", 1);
    }
    if !se.staging.is_empty() {
        rep.count("images_with_staging_leftovers", 1);
    }
    // keep going even if another property's oracle already fired: clean-up and continuation are
    // judged on their own (they need a model to compare with, though)
    let Some(matched) = matched else { return out };

    // --- clean-up restores exactness, then the store keeps working
    let cont_path = dirs.file("cont.script");
    let script_arg = if with_continuation {
        std::fs::write(&cont_path, enc_script(&case.cont)).unwrap();
        Some(cont_path.as_path())
    } else {
        None
    };
    let _ = std::fs::remove_file(&dump_path);
    let r2 = run_driver(
        &p.tools,
        &recover_args(case, root, &dump_path, "delete", script_arg),
        &ShimEnv::default(),
        WATCHDOG,
    );
    if r2.timed_out {
        rep.inconclusive.push(format!("cleanup watchdog at {site}"));
        return out;
    }
    let d2 = parse_dump(&dump_path);
    if !d2.open_ok {
        out.push(Finding::new(
            crash_props,
            "second open after a recovered crash fails",
            site,
            d2.error.unwrap_or(r2.stderr),
        ));
        return out;
    }
    if let Some(c) = &d2.cleanup {
        let deleted = c.get("deleted").and_then(|x| x.as_i64()).unwrap_or(-1);
        let skipped = c.get("skipped").and_then(|x| x.as_i64()).unwrap_or(-1);
        let errors = c.get("errors").and_then(|x| x.as_arr()).map(|a| a.len()).unwrap_or(0);
        if deleted != se.orphaned.len() as i64 || skipped != 0 || errors != 0 {
            out.push(Finding::new(
                &["C08"],
                "clean-up did not delete exactly the reported orphans",
                site,
                format!("reported {} orphans; deleted {deleted}, skipped {skipped}, errors {errors}", se.orphaned.len()),
            ));
        }
        let st_rm = c.get("staging_removed").and_then(|x| x.as_i64()).unwrap_or(-1);
        if st_rm != se.staging.len() as i64 {
            out.push(Finding::new(
                &["C08"],
                "clean-up did not remove exactly the reported staging files",
                site,
                format!("reported {}, removed {st_rm}", se.staging.len()),
            ));
        }
        rep.count("cleanups_checked", 1);
    } else if let Some(e) = &d2.cleanup_error {
        out.push(Finding::new(&["C08"], "clean-up failed", site, e.clone()));
    }
    if let Some(after) = &d2.dump_after_cleanup {
        let want = Observable::of_model(matched, after.index_size);
        let df = want.diff(after, true);
        if !df.is_empty() {
            out.push(Finding::new(
                &["C08"],
                "clean-up changed live data",
                site,
                df.join("; "),
            ));
        }
    }
    if with_continuation {
        let mut mr: ModelRunner<K> = ModelRunner::new();
        mr.model = matched.clone();
        let mut wants = Vec::new();
        for op in &case.cont {
            wants.push(mr.step(op));
        }
        for (i, (w, g)) in wants.iter().zip(d2.continuation_results.iter()).enumerate() {
            let wt = match w {
                Outcome::Unit => "ok unit".to_string(),
                Outcome::Bool(b) => format!("ok bool:{b}"),
                Outcome::Count(c) => format!("ok count:{c}"),
            };
            if *g != wt {
                out.push(Finding::new(
                    crash_props,
                    "an operation misbehaves on the recovered store",
                    site,
                    format!("continuation op {i} {}: want {wt}, got {g}", case.cont[i].enc()),
                ));
            }
        }
        match (&d2.dump2, &d2.dump3) {
            (Some(a), Some(b)) => {
                let want = Observable::of_model(&mr.model, a.index_size);
                let df = want.diff(a, true);
                if !df.is_empty() {
                    out.push(Finding::new(
                        crash_props,
                        "state after operations on the recovered store differs from the model",
                        site,
                        df.join("; "),
                    ));
                }
                let df2 = a.diff(b, true);
                if !df2.is_empty() {
                    out.push(Finding::new(
                        crash_props,
                        "reopen after operations on the recovered store changes the state",
                        site,
                        df2.join("; "),
                    ));
                }
                rep.count("continuations_checked", 1);
            }
            _ => {
                if let Some(e) = &d2.reopen_error {
                    out.push(Finding::new(crash_props, "reopen of the recovered store fails", site, e.clone()));
                } else {
                    rep.inconclusive.push("continuation dumps missing".into());
                }
            }
        }
        // exactness of cas/ after clean-up + continuation (C07 restored, per C08)
        let want_files: BTreeSet<String> = mr.model.blobs().keys().map(rel_path_of).collect();
        let got_files: BTreeSet<String> = fsx::files_rec(&root.join("cas")).into_iter().collect();
        if want_files != got_files {
            out.push(Finding::new(
                &["C08"],
                "cas/ is not exact after clean-up",
                site,
                format!(
                    "extra {:?} missing {:?}",
                    got_files.difference(&want_files).take(3).collect::<Vec<_>>(),
                    want_files.difference(&got_files).take(3).collect::<Vec<_>>()
                ),
            ));
        }
    } else {
        let want_files: BTreeSet<String> = matched.blobs().keys().map(rel_path_of).collect();
        let got_files: BTreeSet<String> = fsx::files_rec(&root.join("cas")).into_iter().collect();
        if want_files != got_files {
            out.push(Finding::new(
                &["C08"],
                "cas/ is not exact after clean-up",
                site,
                format!(
                    "extra {:?} missing {:?}",
                    got_files.difference(&want_files).take(3).collect::<Vec<_>>(),
                    want_files.difference(&got_files).take(3).collect::<Vec<_>>()
                ),
            ));
        }
    }
    let st_left = fsx::files_rec(&root.join("staging"));
    if !st_left.is_empty() {
        out.push(Finding::new(&["C08", "C13"], "staging/ not empty after clean-up", site, format!("{st_left:?}")));
    }
    if case.class == "pre-create" {
        check_precreated_tree(case, root, site, crash_props, &mut out, rep);
    }
    out
}

/// A store whose settings file remembers "the directory tree was pre-created" never creates a
/// shard directory again. After a creation that was killed part-way and then completed by the
/// recovering open, every blob must still be storable: for a shard directory that is missing,
/// a content hashing into it is searched for and put through the API.
fn check_precreated_tree<K: TestKey>(
    case: &Case<K>,
    root: &Path,
    site: &str,
    crash_props: &[&'static str],
    out: &mut Vec<Finding>,
    rep: &mut Report,
) {
    let settings = std::fs::read_to_string(root.join("db_settings.json")).unwrap_or_default();
    let flat: String = settings.chars().filter(|c| !c.is_whitespace()).collect();
    if !flat.contains("\"dir_tree_is_pre_created\":true") {
        return;
    }
    rep.count("precreated_trees_walked", 1);
    let mut missing: Vec<(u8, u8)> = Vec::new();
    for i in 0..=255u8 {
        let l1 = root.join("cas").join(format!("{i:02x}"));
        for j in 0..=255u8 {
            if !l1.join(format!("{j:02x}")).is_dir() {
                missing.push((i, j));
            }
        }
    }
    if missing.is_empty() {
        return;
    }
    let (i, j) = missing[missing.len() / 2];
    let mut n = 0u64;
    let content = loop {
        let c = format!("pre-create probe {n}").into_bytes();
        let h = b3(&c);
        if h[0] == i && h[1] == j {
            break c;
        }
        n += 1;
        if n > 20_000_000 {
            rep.inconclusive.push("no content found for a missing shard directory".into());
            return;
        }
    };
    let cfg = cassadilia_verif::session::config(case.n_ops, case.sync, true, false, false);
    let cas = match cassadilia::Cas::<K>::open(root, cfg) {
        Ok(c) => c,
        Err(e) => {
            out.push(Finding::new(crash_props, "reopen of the recovered store fails", site, cassadilia_verif::session::err_chain(&e)));
            return;
        }
    };
    let key = K::bulk(987_654, 12);
    let r = (|| -> Result<(), String> {
        let mut tx = cas.put(key.clone()).map_err(|e| cassadilia_verif::session::err_chain(&e))?;
        tx.write(&content).map_err(|e| cassadilia_verif::session::err_chain(&e))?;
        tx.finish().map_err(|e| cassadilia_verif::session::err_chain(&e))
    })();
    rep.count("precreated_tree_probe_puts", 1);
    if let Err(e) = r {
        let mut props: Vec<&'static str> = crash_props.to_vec();
        props.push("C19");
        out.push(Finding::new(
            &props,
            "a store that remembers a pre-created tree rejects a blob after its creation was interrupted and completed",
            site,
            format!("{} of 65536 shard directories missing; put of a content hashing to {i:02x}/{j:02x}: {e}", missing.len()),
        ));
    }
}

fn acked_versions_of(ack: &AckInfo) -> BTreeSet<u64> {
    // versions present after the last acknowledged operation
    let mut s = BTreeSet::new();
    for (i, a) in &ack.ops {
        if a.end.is_some()
            && let Some(v) = ack.versions.get(i)
        {
            s.extend(v.iter().copied());
        }
    }
    s
}

struct TraceRun {
    total_calls: u64,
    labels: BTreeMap<u64, String>,
    evs: Vec<Ev>,
    ack: AckInfo,
    root_str: String,
}

fn trace_run<K: TestKey>(p: &Params, case: &Case<K>, rep: &mut Report) -> Option<TraceRun> {
    let dirs = Dirs::new("trace");
    let script = dirs.file("script");
    std::fs::write(&script, enc_script(&case.ops)).unwrap();
    let ack = dirs.file("ack");
    let tr = dirs.file("trace");
    let root = dirs.root();
    let _xdev = prepare_layout(case, &root);
    let r = run_driver(
        &p.tools,
        &run_args(case, &root, &script, &ack, false),
        &ShimEnv { root: Some(root.clone()), trace: Some(tr.clone()), ..Default::default() },
        WATCHDOG,
    );
    if r.code != Some(0) {
        rep.inconclusive.push(format!(
            "trace run of case {} failed: code {:?} signal {:?} {}",
            case.id, r.code, r.signal, r.stderr
        ));
        return None;
    }
    let text = std::fs::read_to_string(&tr).unwrap_or_default();
    let evs = trace::parse_trace(&text);
    let root_str = root.display().to_string();
    let labels = trace::labels_by_call(&root_str, &evs);
    let total = labels.keys().next_back().copied().unwrap_or(0);
    let ackinfo = parse_acklog(&ack);
    // trace policy (C06): nothing under cas/ is ever opened with write intent, written,
    // truncated or linked; blobs arrive by rename from staging/ and leave by unlink / rename out
    for e in &evs {
        if e.ret < 0 {
            continue;
        }
        let bad = match &e.kind {
            trace::EvKind::Open { flags, path, .. } => {
                let acc = flags & 3;
                let write_intent = acc == 1 || acc == 2 || flags & (0o100 | 0o1000 | 0o2000) != 0;
                (write_intent && trace::path_class(&root_str, path) == "cas" && !path.ends_with("/cas"))
                    .then(|| format!("open with write intent (flags {flags:#x}) of {path}"))
            }
            trace::EvKind::Write { path, len, .. } => (trace::path_class(&root_str, path) == "cas")
                .then(|| format!("write of {len} bytes to {path}")),
            trace::EvKind::Trunc { path, len, .. } => (trace::path_class(&root_str, path) == "cas")
                .then(|| format!("truncate to {len} of {path}")),
            trace::EvKind::Link { to, .. } => {
                (trace::path_class(&root_str, to) == "cas").then(|| format!("hard link created at {to}"))
            }
            trace::EvKind::Rename { from, to } => {
                let (cf, ct) = (trace::path_class(&root_str, from), trace::path_class(&root_str, to));
                (ct == "cas" && cf != "staging" && cf != "cas")
                    .then(|| format!("rename into cas/ from outside staging/: {from} -> {to}"))
            }
            _ => None,
        };
        if let Some(b) = bad {
            rep.violate(
                Finding::new(
                    &["C06"],
                    "a file under cas/ was created or modified in place instead of arriving complete by rename",
                    "call-trace policy",
                    b.replace(&root_str, ""),
                ),
                replay_json(p, case, 0, "trace policy"),
            );
        }
    }
    rep.count("trace_policy_events_checked", evs.len() as u64);
    Some(TraceRun { total_calls: total, labels, evs, ack: ackinfo, root_str })
}

// ------------------------------------------------------------------ kill mode

fn kill_job<K: TestKey>(p: &Params, case: &Case<K>, tr: &TraceRun, k: u64, rep: &mut Report) {
    let dirs = Dirs::new("kill");
    let script = dirs.file("script");
    std::fs::write(&script, enc_script(&case.ops)).unwrap();
    let ack = dirs.file("ack");
    let root = dirs.root();
    let _xdev = prepare_layout(case, &root);
    let r = run_driver(
        &p.tools,
        &run_args(case, &root, &script, &ack, false),
        &ShimEnv { root: Some(root.clone()), kill_at: Some(k), ..Default::default() },
        WATCHDOG,
    );
    rep.evaluations += 1;
    if r.timed_out {
        rep.inconclusive.push(format!("kill run watchdog case {} k {k}", case.id));
        return;
    }
    if r.code != Some(137) {
        if r.code == Some(0) {
            // fewer calls than in the trace run (async ordering): nothing was killed
            rep.count("kill_not_reached", 1);
            return;
        }
        if r.code == Some(101) {
            rep.violate(
                Finding::new(
                    &["C03"],
                    "the store panicked in a fault-free run",
                    "run",
                    r.stderr.lines().take(5).collect::<Vec<_>>().join(" / "),
                ),
                replay_json(p, case, k, "run"),
            );
            return;
        }
        rep.inconclusive.push(format!("kill run case {} k {k}: code {:?} {}", case.id, r.code, r.stderr));
        return;
    }
    let label = tr.labels.get(&k).cloned().unwrap_or_else(|| "unknown".into());
    let ackinfo = parse_acklog(&ack);
    let exp = expectations(case, &ackinfo);
    let phase = if ackinfo.open_ok.is_none() {
        "during first open"
    } else if let Some(i) = exp.inflight {
        match &case.ops[i] {
            Op::Put { .. } | Op::TxFinish { .. } => "during put",
            Op::Remove { .. } => "during remove",
            Op::RemoveRange { .. } => "during remove_range",
            Op::Checkpoint => "during checkpoint",
            Op::Reopen { .. } => "during reopen",
            _ => "during transaction write",
        }
    } else {
        "between operations"
    };
    let site = format!("kill before {label} {phase}");
    rep.count(&format!("site {label}"), 1);
    for m in &exp.result_mismatch {
        rep.violate(
            Finding::new(&["C03"], "an acknowledged operation returned a wrong result", &site, m.clone()),
            replay_json(p, case, k, &site),
        );
    }
    let nontrivial = exp.inflight.is_some() || ackinfo.open_ok.is_none();
    if nontrivial {
        rep.distinct_case(format!("{}|{k}", case.script()).as_bytes());
        rep.count("crash_inside_operation", 1);
    } else {
        rep.count("crash_between_operations", 1);
    }
    let acked_versions = acked_versions_of(&ackinfo);
    // (in the cross-device layout puts are expected to fail, so there is nothing to continue with)
    let with_cont = (p.thorough || k % 3 == 0 || case.class == "pre-create") && case.class != "cross-device-shards";
    let findings = judge_image(
        p,
        case,
        &dirs,
        &root,
        &exp,
        &acked_versions,
        &site,
        with_cont,
        &["C03"],
        true,
        rep,
    );
    let clean = findings.is_empty();
    for f in findings {
        rep.violate(f, replay_json(p, case, k, &site));
    }
    // nested: crash the recovery itself at every one of its calls
    let nested = clean && (p.thorough || k % 7 == 0) && case.class != "pre-create" && case.class != "cross-device-shards";
    if nested {
        nested_kill(p, case, &ackinfo, k, &site, rep);
    }
    if rep.samples.len() < 4 && nontrivial {
        rep.sample(
            J::obj()
                .set("case", J::u(case.id))
                .set("class", J::s(case.class))
                .set("kill_before_call", J::u(k))
                .set("call", J::s(label))
                .set("phase", J::s(phase))
                .set("acked_ops", J::u(exp.acked as u64))
                .set(
                    "in_flight",
                    match exp.inflight {
                        Some(i) => J::s(case.ops[i].enc().chars().take(120).collect::<String>()),
                        None => J::Null,
                    },
                ),
        );
    }
}

/// Re-create the crash at k, then crash the recovering open at each of its mutating calls and
/// judge what a clean recovery then sees.
fn nested_kill<K: TestKey>(p: &Params, case: &Case<K>, _ack: &AckInfo, k: u64, site: &str, rep: &mut Report) {
    // image at k
    let base = Dirs::new("nestbase");
    let script = base.file("script");
    std::fs::write(&script, enc_script(&case.ops)).unwrap();
    let ack = base.file("ack");
    let root = base.root();
    let _xdev = prepare_layout(case, &root);
    let r = run_driver(
        &p.tools,
        &run_args(case, &root, &script, &ack, false),
        &ShimEnv { root: Some(root.clone()), kill_at: Some(k), ..Default::default() },
        WATCHDOG,
    );
    if r.code != Some(137) {
        return;
    }
    let ackinfo = parse_acklog(&ack);
    let exp = expectations(case, &ackinfo);
    let acked_versions = acked_versions_of(&ackinfo);
    // how many calls does recovery make?
    let probe = Dirs::new("nestprobe");
    if fsx::copy_tree(&root, &probe.root()).is_err() {
        return;
    }
    let tr = probe.file("trace");
    let dump = probe.file("dump.json");
    let r = run_driver(
        &p.tools,
        &recover_args(case, &probe.root(), &dump, "none", None),
        &ShimEnv { root: Some(probe.root()), trace: Some(tr.clone()), ..Default::default() },
        WATCHDOG,
    );
    if r.code != Some(0) {
        return;
    }
    let evs = trace::parse_trace(&std::fs::read_to_string(&tr).unwrap_or_default());
    let rs = probe.root().display().to_string();
    let labels = trace::labels_by_call(&rs, &evs);
    let total = labels.keys().next_back().copied().unwrap_or(0);
    for j in 1..=total {
        let d = Dirs::new("nest");
        if fsx::copy_tree(&root, &d.root()).is_err() {
            continue;
        }
        let dump = d.file("dump.json");
        let r = run_driver(
            &p.tools,
            &recover_args(case, &d.root(), &dump, "none", None),
            &ShimEnv { root: Some(d.root()), kill_at: Some(j), ..Default::default() },
            WATCHDOG,
        );
        if r.code != Some(137) {
            continue;
        }
        rep.evaluations += 1;
        rep.count("nested_crashes", 1);
        let lj = labels.get(&j).cloned().unwrap_or_default();
        let site2 = format!("{site}; then kill before {lj} during recovery");
        rep.distinct_case(format!("{}|{k}|{j}", case.script()).as_bytes());
        let findings = judge_image(
            p,
            case,
            &d,
            &d.root(),
            &exp,
            &acked_versions,
            &site2,
            false,
            &["C03"],
            true,
            rep,
        );
        for f in findings {
            rep.violate(f, replay_json(p, case, k, &site2));
        }
    }
}

// ------------------------------------------------------------------ power mode

fn power_case<K: TestKey>(p: &Params, case: &Case<K>, tr: &TraceRun, rep: &mut Report, budget: &AtomicUsize) {
    // op intervals from the ack log of the trace run
    let ack = &tr.ack;
    let mut rng = Rng::derive(p.seed ^ 0x9097, case.id);
    let cuts: Vec<u64> = match p.only_k {
        Some(k) => vec![k],
        None => (1..=tr.total_calls).collect(),
    };
    for c in cuts {
        let sim = PowerSim::replay(&tr.evs, c);
        let dirty = sim.dirty_files();
        if dirty.is_empty() {
            rep.count("cuts_without_dirty_files", 1);
            continue;
        }
        // loss sets: all dirty, each alone, all subsets when few, else random ones
        let mut sets: Vec<BTreeSet<String>> = Vec::new();
        sets.push(dirty.iter().cloned().collect());
        if dirty.len() > 1 {
            for f in &dirty {
                sets.push(std::iter::once(f.clone()).collect());
            }
            if dirty.len() <= 4 {
                for mask in 1u32..(1 << dirty.len()) {
                    let s: BTreeSet<String> = dirty
                        .iter()
                        .enumerate()
                        .filter(|(i, _)| mask & (1 << i) != 0)
                        .map(|(_, f)| f.clone())
                        .collect();
                    if !sets.contains(&s) {
                        sets.push(s);
                    }
                }
            } else {
                for _ in 0..(if p.thorough { 16 } else { 4 }) {
                    let s: BTreeSet<String> =
                        dirty.iter().filter(|_| rng.chance(1, 2)).cloned().collect();
                    if !s.is_empty() && !sets.contains(&s) {
                        sets.push(s);
                    }
                }
            }
        }
        // expectations at this cut: op i acked iff its A stamp <= c; in flight iff B < c < A
        let mut synth = AckInfo { open_begin: ack.open_begin, ..Default::default() };
        if ack.open_ok.is_some_and(|x| x as u64 <= c) {
            synth.open_ok = ack.open_ok;
        }
        for (i, a) in &ack.ops {
            if (a.begin_c as u64) < c || (a.begin_c as u64 == c && a.end.as_ref().is_some_and(|e| e.0 as u64 == c)) {
                let mut e = a.clone();
                if let Some((ec, _)) = &e.end
                    && (*ec as u64) > c
                {
                    e.end = None;
                }
                let ended = e.end.is_some();
                synth.ops.insert(*i, e);
                if ended && let Some(v) = ack.versions.get(i) {
                    synth.versions.insert(*i, v.clone());
                }
            }
        }
        let exp = expectations(case, &synth);
        let acked_versions = acked_versions_of(&synth);
        let label = tr.labels.get(&c).cloned().unwrap_or_default();
        for lose in sets {
            if budget.fetch_sub(1, Ordering::Relaxed) == 0 {
                budget.store(0, Ordering::Relaxed);
                rep.count("images_skipped_budget", 1);
                return;
            }
            let d = Dirs::new("power");
            if let Err(e) = sim.materialise(&tr.root_str, &d.root(), &lose) {
                rep.inconclusive.push(format!("materialise: {e}"));
                continue;
            }
            rep.evaluations += 1;
            let lost_classes: BTreeSet<&str> =
                lose.iter().map(|f| trace::path_class(&tr.root_str, f)).collect();
            let site = format!(
                "power loss after {label}, unsynced bytes lost in {}",
                lost_classes.iter().copied().collect::<Vec<_>>().join("+")
            );
            rep.count(&format!("lost {}", lost_classes.iter().copied().collect::<Vec<_>>().join("+")), 1);
            let mut key = format!("{}|{c}|", case.script());
            for f in &lose {
                key.push_str(f.strip_prefix(&tr.root_str).unwrap_or(f));
                key.push(',');
            }
            rep.distinct_case(key.as_bytes());
            let findings = judge_image(
                p,
                case,
                &d,
                &d.root(),
                &exp,
                &acked_versions,
                &site,
                p.thorough && c % 5 == 0,
                &["C09"],
                false,
                rep,
            );
            let had = !findings.is_empty();
            for mut f in findings {
                // scan/clean-up findings on power-loss images are judged under C09 only when they
                // concern recovery itself; C08/C06 keep their own tags.
                if f.props.contains(&"C03") {
                    f.props = vec!["C09"];
                }
                rep.violate(f, replay_json(p, case, c, &site));
            }
            if rep.samples.len() < 4 && !had {
                rep.sample(
                    J::obj()
                        .set("case", J::u(case.id))
                        .set("class", J::s(case.class))
                        .set("cut_after_call", J::u(c))
                        .set("call", J::s(label.clone()))
                        .set(
                            "lost_files",
                            J::Arr(
                                lose.iter()
                                    .map(|f| J::s(f.strip_prefix(&tr.root_str).unwrap_or(f).to_string()))
                                    .collect(),
                            ),
                        )
                        .set("acked_ops", J::u(exp.acked as u64)),
                );
            }
        }
    }
}

// ------------------------------------------------------------------ fail mode (C14)

/// Per-key knowledge under a single injected fault: exact value, or one of several.
#[derive(Clone, Debug)]
struct Fuzzy<K: TestKey> {
    map: BTreeMap<K, Vec<Option<Vec<u8>>>>, // candidates; None = absent
}

impl<K: TestKey> Fuzzy<K> {
    fn new() -> Self {
        Fuzzy { map: BTreeMap::new() }
    }
    fn cands(&self, k: &K) -> Vec<Option<Vec<u8>>> {
        self.map.get(k).cloned().unwrap_or_else(|| vec![None])
    }
    fn set_exact(&mut self, k: &K, v: Option<Vec<u8>>) {
        self.map.insert(k.clone(), vec![v]);
    }
    fn add_cand(&mut self, k: &K, v: Option<Vec<u8>>) {
        let mut c = self.cands(k);
        if !c.contains(&v) {
            c.push(v);
        }
        self.map.insert(k.clone(), c);
    }
    fn keys_possibly_present(&self) -> Vec<K> {
        self.map.iter().filter(|(_, c)| c.iter().any(|x| x.is_some())).map(|(k, _)| k.clone()).collect()
    }
    /// Check what an independent decode of snapshot + log yields: every key holds one of its
    /// candidates (C20: "snapshot plus log equal the acknowledged history", across restarts).
    fn check_decoded(&self, decoded: &BTreeMap<Vec<u8>, (Hash32, u64)>, site: &str, when: &str, out: &mut Vec<Finding>) {
        let mut all: BTreeSet<Vec<u8>> = self.map.keys().map(|k| k.kb()).collect();
        all.extend(decoded.keys().cloned());
        for kb in all {
            let cands: Vec<Option<Vec<u8>>> =
                self.map.iter().find(|(k, _)| k.kb() == kb).map(|(_, c)| c.clone()).unwrap_or_else(|| vec![None]);
            let ok = match decoded.get(&kb) {
                None => cands.contains(&None),
                Some((h, size)) => cands.iter().any(|c| matches!(c, Some(v) if b3(v) == *h && v.len() as u64 == *size)),
            };
            if !ok {
                out.push(Finding::new(
                    &["C20"],
                    &format!("snapshot plus log decode to a value no acknowledged history allows {when}"),
                    site,
                    format!("key {}: decoded {:?}", hex(&kb), decoded.get(&kb).map(|(h, s)| (hex(h)[..12].to_string(), *s))),
                ));
                return;
            }
        }
    }
    /// Check an observable: every key must hold one of its candidates, reads must succeed.
    fn check(&self, o: &Observable, site: &str, failed_keys: &BTreeSet<Vec<u8>>, when: &str, out: &mut Vec<Finding>) {
        let mut all: BTreeSet<Vec<u8>> = self.map.keys().map(|k| k.kb()).collect();
        all.extend(o.keys.keys().cloned());
        for kb in all {
            let cands: Vec<Option<Vec<u8>>> = self
                .map
                .iter()
                .find(|(k, _)| k.kb() == kb)
                .map(|(_, c)| c.clone())
                .unwrap_or_else(|| vec![None]);
            let own = failed_keys.contains(&kb);
            let what = if own { "a key of the failed operation" } else { "a key not touched by the failed operation" };
            match o.keys.get(&kb) {
                None => {
                    if !cands.contains(&None) {
                        out.push(Finding::new(
                            &["C14"],
                            &format!("{what} disappeared {when}"),
                            site,
                            format!("key {}", hex(&kb)),
                        ));
                    }
                }
                Some((h, size, got)) => {
                    let ok = cands.iter().any(|c| match c {
                        Some(v) => b3(v) == *h && v.len() as u64 == *size,
                        None => false,
                    });
                    if !ok {
                        out.push(Finding::new(
                            &["C14"],
                            &format!("{what} holds neither its old nor its new value {when}"),
                            site,
                            format!("key {} -> {} ({} bytes)", hex(&kb), &hex(h)[..12], size),
                        ));
                    } else {
                        match got {
                            Ok(gh) if gh == h => {}
                            Ok(_) => out.push(Finding::new(
                                &["C14"],
                                &format!("{what} returns bytes that do not match its recorded hash {when}"),
                                site,
                                format!("key {}", hex(&kb)),
                            )),
                            Err(e) => out.push(Finding::new(
                                &["C14"],
                                &format!("{what} cannot be read {when}: {}", classify_open_error(e)),
                                site,
                                format!("key {}: {e}", hex(&kb)),
                            )),
                        }
                    }
                }
            }
        }
    }
}

fn fail_job<K: TestKey>(p: &Params, case: &Case<K>, tr: &TraceRun, k: u64, errno: i32, rep: &mut Report) {
    let dirs = Dirs::new("fail");
    let script = dirs.file("script");
    std::fs::write(&script, enc_script(&case.ops)).unwrap();
    let ack = dirs.file("ack");
    let root = dirs.root();
    let snap_dir = dirs.file("snaps");
    let mut driver_args = run_args(case, &root, &script, &ack, true);
    driver_args.extend([
        "--snap-dir".to_string(),
        snap_dir.display().to_string(),
        "--snap-limit".to_string(),
        (if p.thorough { 12 } else { 3 }).to_string(),
    ]);
    let shim = ShimEnv { root: Some(root.clone()), fail_at: Some(k), errno: Some(errno), ..Default::default() };
    let mut r = run_driver(&p.tools, &driver_args, &shim, FAIL_WATCHDOG);
    rep.evaluations += 1;
    let label = tr.labels.get(&k).cloned().unwrap_or_else(|| "unknown".into());
    let site = format!("fault {} at {label}", if errno == 5 { "EIO" } else { "ENOSPC" });
    rep.count(&format!("site {label}"), 1);
    if r.timed_out {
        // One expired watchdog is no verdict (the machine may be loaded). The run is repeated
        // from scratch with three times the budget; a history that takes milliseconds without
        // the fault and is stuck in the same operation after 25 s and again after 75 s has an
        // operation that does not return (bounded-progress reading of "never hangs").
        let stuck_op = |ack: &Path| -> Option<usize> {
            let a = parse_acklog(ack);
            a.ops.iter().find(|(_, o)| o.end.is_none()).map(|(i, _)| *i)
        };
        let first = stuck_op(&ack);
        fsx::rm_rf(&root);
        fsx::rm_rf(&snap_dir);
        let _ = std::fs::remove_file(&ack);
        r = run_driver(&p.tools, &driver_args, &shim, FAIL_WATCHDOG * 3);
        if r.timed_out {
            let second = stuck_op(&ack);
            if first.is_some() && first == second {
                let i = first.unwrap();
                rep.violate(
                    Finding::new(
                        &["C14", "C15"],
                        "an operation did not return after a failed I/O call (two attempts, 25 s and 75 s; the history takes milliseconds without the fault)",
                        &site,
                        format!("operation {i} `{}` was entered and never returned", case.ops[i].enc().chars().take(80).collect::<String>()),
                    ),
                    replay_json(p, case, k, &site),
                );
            } else {
                rep.inconclusive.push(format!("fail run watchdog twice, case {} k {k}, stuck at {first:?} / {second:?}", case.id));
            }
            return;
        }
        rep.count("watchdog_expired_once_then_completed", 1);
    }
    if r.code == Some(101) || r.signal.is_some() {
        rep.violate(
            Finding::new(
                &["C14"],
                "the store panicked or aborted after a failed I/O call",
                &site,
                r.stderr.lines().take(6).collect::<Vec<_>>().join(" / "),
            ),
            replay_json(p, case, k, &site),
        );
        return;
    }
    let ackinfo = parse_acklog(&ack);
    if ackinfo.open_ok.is_none() {
        // the fault hit the first open: it must have returned an error (not panicked); a later
        // fault-free open must succeed on whatever is left
        rep.count("fault_during_first_open", 1);
        let dump = dirs.file("dump.json");
        let r2 = run_driver(&p.tools, &recover_args(case, &root, &dump, "none", None), &ShimEnv::default(), WATCHDOG);
        let d = parse_dump(&dump);
        if !r2.timed_out && d.raw_present && !d.open_ok {
            rep.violate(
                Finding::new(
                    &["C14"],
                    &format!("open fails after a fault during first-time initialisation: {}", classify_open_error(&d.error.clone().unwrap_or_default())),
                    &site,
                    d.error.unwrap_or_default(),
                ),
                replay_json(p, case, k, &site),
            );
        }
        rep.distinct_case(format!("{}|{k}|{errno}", case.script()).as_bytes());
        return;
    }
    // walk the acknowledged results
    let mut fz: Fuzzy<K> = Fuzzy::new();
    let mut slots: BTreeMap<usize, (K, Content)> = BTreeMap::new();
    let mut findings: Vec<Finding> = Vec::new();
    let mut failed_keys: BTreeSet<Vec<u8>> = BTreeSet::new();
    let mut failures = 0u64;
    let mut hit_op: Option<usize> = None;
    let mut knowledge_at: BTreeMap<usize, (Fuzzy<K>, BTreeSet<Vec<u8>>)> = BTreeMap::new();
    for (i, op) in case.ops.iter().enumerate() {
        let Some(a) = ackinfo.ops.get(&i) else { break };
        let Some((end_c, res)) = &a.end else {
            findings.push(Finding::new(&["C14"], "an operation never returned after a failed I/O call", &site, op.enc()));
            break;
        };
        let in_this = (a.begin_c as u64) < k && k <= *end_c as u64;
        if in_this {
            hit_op = Some(i);
        }
        let ok = res.is_ok();
        if !ok {
            failures += 1;
        }
        // keys and new values of this op
        let mut effects: Vec<(K, Option<Vec<u8>>)> = Vec::new();
        match op {
            Op::Put { key, content, .. } => effects.push((key.clone(), Some(content.bytes()))),
            Op::TxBegin { slot, key, content } => {
                if ok {
                    slots.insert(*slot, (key.clone(), *content));
                }
            }
            Op::TxFinish { slot } => {
                if let Some((k2, c)) = slots.remove(slot) {
                    effects.push((k2, Some(c.bytes())));
                }
            }
            Op::TxDrop { slot } => {
                slots.remove(slot);
            }
            Op::Remove { key } => effects.push((key.clone(), None)),
            Op::RemoveRange { lo, hi } => {
                for k2 in fz.keys_possibly_present() {
                    if cassadilia_verif::ops::in_range(&k2, lo, hi) {
                        effects.push((k2, None));
                    }
                }
            }
            Op::Reopen { .. } => slots.clear(),
            _ => {}
        }
        if ok {
            // Only an operation that logged something settles a key. `remove` returning false and
            // a range removal over a key the store believes absent write nothing, so they leave
            // an uncertain key uncertain (the statement only promises "old or new").
            let removed_nothing = matches!(res, Ok(Outcome::Bool(false)));
            for (k2, v) in effects {
                let cands = fz.cands(&k2);
                let uncertain = cands.len() > 1;
                if v.is_none() && (removed_nothing || (uncertain && matches!(op, Op::RemoveRange { .. }))) {
                    if removed_nothing && !cands.contains(&None) {
                        findings.push(Finding::new(
                            &["C14"],
                            "remove reports absent for a key that must be present",
                            &site,
                            format!("op {i} {}", op.enc()),
                        ));
                    }
                    if uncertain {
                        fz.add_cand(&k2, None);
                    }
                    continue;
                }
                fz.set_exact(&k2, v);
            }
        } else {
            for (k2, v) in effects {
                fz.add_cand(&k2, v);
                failed_keys.insert(k2.kb());
            }
            if !in_this {
                rep.count("secondary_failures", 1);
            }
        }
        if let Some(o) = ackinfo.observes.get(&(i as i64)) {
            fz.check(o, &site, &failed_keys, "in the same session", &mut findings);
        }
        knowledge_at.insert(i, (fz.clone(), failed_keys.clone()));
        if !findings.is_empty() {
            break;
        }
    }
    if let Some(s) = &ackinfo.stop {
        rep.count("handle_lost_after_fault", 1);
        let _ = s;
    }
    if failures > 0 {
        rep.distinct_case(format!("{}|{k}|{errno}", case.script()).as_bytes());
        rep.count("runs_with_failed_operation", 1);
    } else {
        rep.count("runs_where_fault_was_absorbed", 1);
    }
    let _ = hit_op;
    // whatever failed, the files must stay well-formed (C20): complete checksummed records,
    // increasing versions in their segments' ranges, every version that was in the log after a
    // SUCCESSFUL operation still present unless the snapshot covers it
    {
        let mut ok_versions: BTreeSet<u64> = BTreeSet::new();
        for (i, a) in &ackinfo.ops {
            if let Some((_, Ok(_))) = &a.end
                && let Some(v) = ackinfo.versions.get(i)
            {
                ok_versions.extend(v.iter().copied());
            }
        }
        match disk::decode_db(&root, case.n_ops) {
            Err(e) => findings.push(Finding::new(
                &["C20", "C14"],
                "on-disk files are malformed after a failed I/O call",
                &site,
                e,
            )),
            Ok(st) => {
                let missing = st.missing_acked(&ok_versions);
                if !missing.is_empty() {
                    findings.push(Finding::new(
                        &["C20", "C14"],
                        "a version logged by a successful operation is in no segment after a failed I/O call",
                        &site,
                        format!("missing {missing:?}, snapshot v{}", st.snapshot_version),
                    ));
                }
                rep.count("format_checks_after_fault", 1);
            }
        }
    }
    // clean reopen in a new process
    if findings.iter().all(|f| !f.props.contains(&"C14") || f.props.contains(&"C20")) {
        let dump = dirs.file("dump.json");
        let r2 = run_driver(&p.tools, &recover_args(case, &root, &dump, "none", None), &ShimEnv::default(), WATCHDOG);
        if r2.timed_out {
            rep.inconclusive.push("reopen watchdog".into());
        } else {
            let d = parse_dump(&dump);
            if !d.raw_present {
                if r2.code == Some(101) || r2.signal.is_some() {
                    findings.push(Finding::new(
                        &["C14"],
                        "reopen after a failed I/O call panicked",
                        &site,
                        r2.stderr.lines().take(5).collect::<Vec<_>>().join(" / "),
                    ));
                } else {
                    rep.inconclusive.push(format!("reopen child left no dump: {:?} {}", r2.code, r2.stderr));
                }
            } else if !d.open_ok {
                let e = d.error.clone().unwrap_or_default();
                findings.push(Finding::new(
                    &["C14"],
                    &format!("reopen fails after a failed I/O call: {}", classify_open_error(&e)),
                    &site,
                    e,
                ));
            } else if let Some(o) = &d.dump1 {
                fz.check(o, &site, &failed_keys, "after reopening", &mut findings);
                if let Ok(st) = disk::decode_db(&root, case.n_ops) {
                    fz.check_decoded(&st.map, &site, "after reopening", &mut findings);
                    rep.count("format_checks_after_fault_and_reopen", 1);
                }
                if !d.missing.is_empty() || !d.corrupted.is_empty() {
                    findings.push(Finding::new(
                        &["C14"],
                        "reopen after a failed I/O call reports missing or corrupted blobs",
                        &site,
                        format!("missing {:?} corrupted {:?}", d.missing, d.corrupted),
                    ));
                }
                rep.count("reopens_checked", 1);
            }
        }
    }
    // copies of the directory taken at operation boundaries after the failure: each is what a
    // restart at that moment finds ("this stays true for all later operations and after
    // reopening"), even if a later operation of the same session heals the files
    for i in &ackinfo.snaps {
        let Some((fz_i, failed_i)) = knowledge_at.get(i) else { continue };
        let snap_root = snap_dir.join(format!("snap-{i}"));
        let dump = dirs.file("snap-dump.json");
        let _ = std::fs::remove_file(&dump);
        let r3 = run_driver(&p.tools, &recover_args(case, &snap_root, &dump, "none", None), &ShimEnv::default(), WATCHDOG);
        if r3.timed_out {
            rep.inconclusive.push("snapshot reopen watchdog".into());
            continue;
        }
        let d = parse_dump(&dump);
        let when = format!("after reopening a copy taken after operation {i} ({})", case.ops[*i].enc().chars().take(40).collect::<String>());
        if !d.raw_present {
            if r3.code == Some(101) || r3.signal.is_some() {
                findings.push(Finding::new(&["C14"], "reopen after a failed I/O call panicked", &site, format!("{when}: {}", r3.stderr.lines().take(4).collect::<Vec<_>>().join(" / "))));
            }
        } else if !d.open_ok {
            let e = d.error.clone().unwrap_or_default();
            findings.push(Finding::new(
                &["C14"],
                &format!("reopen fails after a failed I/O call: {}", classify_open_error(&e)),
                &site,
                format!("{when}: {e}"),
            ));
        } else if let Some(o) = &d.dump1 {
            fz_i.check(o, &site, failed_i, "after reopening a copy taken at a later operation boundary", &mut findings);
            // the reopened copy (with the snapshot its open wrote) decodes to an allowed state too
            if let Ok(st) = disk::decode_db(&snap_root, case.n_ops) {
                fz_i.check_decoded(&st.map, &site, "after reopening a copy taken at a later operation boundary", &mut findings);
                rep.count("format_checks_after_fault_and_reopen", 1);
            }
            if !d.missing.is_empty() || !d.corrupted.is_empty() {
                findings.push(Finding::new(
                    &["C14"],
                    "reopen after a failed I/O call reports missing or corrupted blobs",
                    &site,
                    format!("{when}: missing {:?} corrupted {:?}", d.missing, d.corrupted),
                ));
            }
            rep.count("boundary_copies_reopened", 1);
        }
    }
    if rep.samples.len() < 4 && failures > 0 && findings.is_empty() {
        rep.sample(
            J::obj()
                .set("case", J::u(case.id))
                .set("class", J::s(case.class))
                .set("failed_call", J::u(k))
                .set("call", J::s(label))
                .set("errno", J::u(errno as u64))
                .set("operations_that_returned_error", J::u(failures)),
        );
    }
    for f in findings {
        rep.violate(f, replay_json(p, case, k, &site));
    }
}

/// Fault histories: ordinary classes plus the shape where the content of an operation is
/// re-used under another key and removed again afterwards.
fn build_fail_case<K: TestKey>(p: &Params, id: u64) -> Case<K> {
    let mut c: Case<K> = build_case(p, id);
    let mut rng = Rng::derive(p.seed ^ 0xFA11, id);
    if c.class == "large-record" {
        return c;
    }
    let spare = K::bulk(777, 8);
    if id % 10 == 7 {
        // whatever fails is followed at once by an explicit checkpoint and a restart, then two
        // more mutations and another restart, all within one segment: what the failed call left
        // behind (an unused version number, a half-written record) meets checkpoint + replay twice
        c.class = "checkpoint-then-restart";
        c.n_ops = *rng.pick(&[7u64, 1000]);
        let k = |i: usize| K::bulk(i, 5);
        let reopen = Op::Reopen { flip_sync: false, pre_create: false };
        c.ops = vec![
            Op::Put { key: k(0), content: Content::new(710, 21), chunks: vec![] },
            Op::Put { key: k(1), content: Content::new(711, 22), chunks: vec![] },
            if rng.chance(1, 2) {
                Op::Put { key: k(2), content: Content::new(712, 23), chunks: vec![] }
            } else {
                Op::Remove { key: k(1) }
            },
            Op::Checkpoint,
            reopen.clone(),
            Op::Remove { key: k(0) },
            Op::Put { key: k(3), content: Content::new(713, 24), chunks: vec![] },
            reopen,
        ];
        return c;
    }
    if id % 10 == 9 {
        // a blob whose unlink may be the call that fails is referenced again by a later put, and
        // then other blobs lose their last reference: whatever the store remembers about the
        // failed deletion must not be acted on once the content is live again
        c.class = "rereference-after-failed-unlink";
        c.n_ops = *rng.pick(&[3u64, 1000]);
        let k = |i: usize| K::bulk(i, 5);
        let a = Content::new(720, 26);
        c.ops = vec![
            Op::Put { key: k(0), content: a, chunks: vec![] },
            Op::Put { key: k(0), content: Content::new(721, 27), chunks: vec![] },
            Op::Put { key: k(1), content: a, chunks: vec![] },
            Op::Put { key: k(2), content: Content::new(722, 28), chunks: vec![] },
            Op::Put { key: k(2), content: Content::new(723, 29), chunks: vec![] },
            Op::Remove { key: k(0) },
            Op::Put { key: k(3), content: Content::new(724, 30), chunks: vec![] },
        ];
        return c;
    }
    if id % 10 == 8 {
        // the log walks through segments 0..=11 (two operations each, mostly one key): a rollover
        // checkpoint that fails leaves two (or more) un-checkpointed segments behind, in
        // particular 9 and 10, whose numeric and lexicographic orders differ; the history then
        // goes on and is reopened
        c.class = "many-segments-faulted";
        c.n_ops = 2;
        let keys = [K::bulk(1, 5), K::bulk(2, 5)];
        let mut ops = Vec::new();
        for i in 0..(23 + rng.usize(2)) {
            let key = keys[usize::from(i % 4 == 2)].clone();
            ops.push(Op::Put { key, content: Content::new(800 + i as u32, 12 + i), chunks: vec![] });
        }
        c.ops = ops;
        return c;
    }
    if c.class == "many-segments" {
        // every operation is followed by an explicit checkpoint: whatever fails (also inside a
        // rollover checkpoint), the caller's next step is a checkpoint "retry" with no mutation
        // in between
        c.class = "checkpoint-retry";
        c.n_ops = *rng.pick(&[2u64, 3]);
        let mut ops = Vec::new();
        let mut i = 0u32;
        for _round in 0..2 {
            // a full segment plus the put that rolls over (its rollover checkpoint may be the
            // thing that fails), then the explicit checkpoint
            for _ in 0..=c.n_ops {
                ops.push(Op::Put { key: K::bulk(i as usize, 6), content: Content::new(600 + i, 20 + i as usize), chunks: vec![] });
                i += 1;
            }
            ops.push(Op::Checkpoint);
        }
        c.ops = ops;
        return c;
    }
    if c.class == "reopen" {
        // a writer opened on a non-empty segment (after an in-process reopen in the middle of a
        // segment), then more appends in that segment - any of which may be the one that fails
        c.n_ops = *rng.pick(&[7u64, 1000]); // no rollover inside this history
        let k = |i: usize| K::bulk(i, 5);
        c.ops = vec![
            Op::Put { key: k(0), content: Content::new(700, 21), chunks: vec![] },
            Op::Put { key: k(1), content: Content::new(701, 22), chunks: vec![] },
            Op::Reopen { flip_sync: false, pre_create: false },
            Op::Put { key: k(2), content: Content::new(702, 23), chunks: vec![] },
            Op::Put { key: k(0), content: Content::new(703, 24), chunks: vec![] },
            Op::Remove { key: k(1) },
            Op::Put { key: k(1), content: Content::new(704, 25), chunks: vec![] },
        ];
        return c;
    }
    if c.class == "async" {
        // dedicated shape: the content of a (possibly failing) put is stored under another key
        // and removed again, with no later checkpoint or write to hide what the log then says
        c.class = "reuse-after-failure";
        c.sync = true;
        c.n_ops = *rng.pick(&[3u64, 1000]);
        let k0 = K::bulk(1, 6);
        let k1 = K::bulk(2, 6);
        let x = Content::new(500 + id as u32, 64);
        let mut ops = vec![
            Op::Put { key: k0.clone(), content: Content::new(400, 20), chunks: vec![] },
            Op::Put { key: k1.clone(), content: Content::new(401, 30), chunks: vec![] },
        ];
        if rng.chance(1, 2) {
            ops.push(Op::Put { key: k0.clone(), content: x, chunks: vec![] });
        } else {
            ops.push(Op::Remove { key: k1.clone() });
            ops.push(Op::Put { key: k1.clone(), content: x, chunks: vec![] });
        }
        ops.push(Op::Put { key: spare.clone(), content: x, chunks: vec![] });
        ops.push(Op::Remove { key: spare.clone() });
        c.ops = ops;
        return c;
    }
    // after some puts insert: put(other, same content); remove(other)
    let mut out: Vec<Op<K>> = Vec::new();
    for op in c.ops.drain(..) {
        let extra = match &op {
            Op::Put { content, .. } if rng.chance(1, 2) => Some(*content),
            _ => None,
        };
        out.push(op);
        if let Some(content) = extra {
            out.push(Op::Put { key: spare.clone(), content, chunks: vec![] });
            out.push(Op::Remove { key: spare.clone() });
        }
    }
    c.ops = out;
    c
}

// ------------------------------------------------------------------ main

enum Job {
    Kill { case: usize, k: u64 },
    Fail { case: usize, k: u64, errno: i32 },
    Power { case: usize },
}

fn run_all<K: TestKey>(p: &Params, ids: &[u64], threads: usize, deadline: std::time::Instant) -> Report {
    let total = Mutex::new(Report::new("crashmon"));
    // phase 1: build cases + trace runs
    let cases: Vec<Case<K>> = ids
        .iter()
        .map(|id| if p.mode == "fail" { build_fail_case::<K>(p, *id) } else { build_case::<K>(p, *id) })
        .collect();
    let traces: Vec<Mutex<Option<TraceRun>>> = cases.iter().map(|_| Mutex::new(None)).collect();
    let next = AtomicUsize::new(0);
    std::thread::scope(|s| {
        for _ in 0..threads.min(cases.len()).max(1) {
            s.spawn(|| {
                let mut rep = Report::new("crashmon");
                loop {
                    let i = next.fetch_add(1, Ordering::Relaxed);
                    if i >= cases.len() {
                        break;
                    }
                    let t = trace_run(p, &cases[i], &mut rep);
                    if let Some(t) = &t {
                        rep.count("trace_runs", 1);
                        rep.count("traced_calls", t.total_calls);
                    }
                    *traces[i].lock().unwrap() = t;
                }
                total.lock().unwrap().merge(rep);
            });
        }
    });
    let traces: Vec<Option<TraceRun>> = traces.into_iter().map(|m| m.into_inner().unwrap()).collect();
    // phase 2: jobs
    let mut jobs: Vec<Job> = Vec::new();
    for (ci, t) in traces.iter().enumerate() {
        let Some(t) = t else { continue };
        match p.mode.as_str() {
            "kill" => {
                let ks: Vec<u64> = match p.only_k {
                    Some(k) => vec![k],
                    None if cases[ci].class == "pre-create" => {
                        // 65 536 mkdirs: all other calls, plus a seeded dozen of the mkdirs
                        let mut rng = Rng::derive(p.seed ^ 0x9C3, cases[ci].id);
                        let mkdirs: Vec<u64> = t.labels.iter().filter(|(_, l)| l.as_str() == "mkdir:cas").map(|(k, _)| *k).collect();
                        let mut ks: Vec<u64> = t.labels.iter().filter(|(_, l)| l.as_str() != "mkdir:cas").map(|(k, _)| *k).collect();
                        for _ in 0..12 {
                            if !mkdirs.is_empty() {
                                ks.push(*rng.pick(&mkdirs));
                            }
                        }
                        ks.sort();
                        ks.dedup();
                        ks
                    }
                    None if cases[ci].class == "wide-range" => {
                        // hundreds of puts lead up to one multi-key removal: every call inside the
                        // removal (and the one after it), plus a seeded sample of the others
                        let mut rng = Rng::derive(p.seed ^ 0x8A1, cases[ci].id);
                        let mut ks: Vec<u64> = Vec::new();
                        for (i, op) in cases[ci].ops.iter().enumerate() {
                            if let (Op::RemoveRange { .. }, Some(a)) = (op, t.ack.ops.get(&i)) {
                                let end = a.end.as_ref().map(|e| e.0).unwrap_or(a.begin_c);
                                ks.extend((a.begin_c.max(0) as u64 + 1)..=(end.max(0) as u64 + 1));
                            }
                        }
                        for _ in 0..(if p.thorough { 400 } else { 40 }) {
                            ks.push(rng.range(1, t.total_calls.max(2)));
                        }
                        ks.retain(|k| *k >= 1 && *k <= t.total_calls);
                        ks.sort();
                        ks.dedup();
                        ks
                    }
                    None => (1..=t.total_calls).collect(),
                };
                for k in ks {
                    jobs.push(Job::Kill { case: ci, k });
                }
            }
            "fail" => {
                let ks: Vec<u64> = match p.only_k {
                    Some(k) => vec![k],
                    None => (1..=t.total_calls).collect(),
                };
                for k in ks {
                    jobs.push(Job::Fail { case: ci, k, errno: 5 });
                    if p.thorough || k % 2 == 0 {
                        jobs.push(Job::Fail { case: ci, k, errno: 28 });
                    }
                }
            }
            _ => jobs.push(Job::Power { case: ci }),
        }
    }
    // seeded shuffle: if the time budget cuts the run short, every class loses a fraction of its
    // points instead of the last classes losing all of theirs
    Rng::new(p.seed ^ 0x5AFE).shuffle(&mut jobs);
    let next = AtomicUsize::new(0);
    let power_budget = AtomicUsize::new(if p.thorough { 400_000 } else { 6_000 });
    std::thread::scope(|s| {
        for _ in 0..threads.min(jobs.len()).max(1) {
            s.spawn(|| {
                let mut rep = Report::new("crashmon");
                loop {
                    let i = next.fetch_add(1, Ordering::Relaxed);
                    if i >= jobs.len() {
                        break;
                    }
                    if std::time::Instant::now() > deadline {
                        rep.count("jobs_skipped_deadline", 1);
                        continue;
                    }
                    match &jobs[i] {
                        Job::Kill { case, k } => {
                            kill_job(p, &cases[*case], traces[*case].as_ref().unwrap(), *k, &mut rep)
                        }
                        Job::Fail { case, k, errno } => {
                            fail_job(p, &cases[*case], traces[*case].as_ref().unwrap(), *k, *errno, &mut rep)
                        }
                        Job::Power { case } => {
                            power_case(p, &cases[*case], traces[*case].as_ref().unwrap(), &mut rep, &power_budget)
                        }
                    }
                }
                total.lock().unwrap().merge(rep);
            });
        }
    });
    let mut rep = total.into_inner().unwrap();
    rep.count("cases", cases.len() as u64);
    for c in &cases {
        rep.count(&format!("class {}", c.class), 1);
    }
    rep
}

fn main() {
    let args = Args::from_env();
    let _guard = fsx::ScratchGuard;
    let p = Params {
        mode: args.str("mode", "kill"),
        seed: args.u64("seed", 1),
        thorough: args.has("thorough"),
        tools: Tools::locate(),
        only_k: args.get("k").and_then(|x| x.parse().ok()),
    };
    let threads = args.u64("threads", 16) as usize;
    let cases = args.u64("cases", 6);
    let deadline = std::time::Instant::now() + Duration::from_secs(args.u64("deadline", 3600));
    let ids: Vec<u64> = match args.get("case") {
        Some(c) => vec![c.parse().expect("--case")],
        None => (0..cases).collect(),
    };
    if !p.tools.shim.exists() || !p.tools.driver.exists() {
        let mut rep = Report::new("crashmon");
        rep.inconclusive.push(format!(
            "tools missing: shim {} driver {}",
            p.tools.shim.display(),
            p.tools.driver.display()
        ));
        rep.emit(args.get("out"));
        std::process::exit(2);
    }
    let started = std::time::Instant::now();
    // ids 0..5 use String keys, 6..11 Vec<u8> keys, and so on (six classes per block)
    let even: Vec<u64> = ids.iter().copied().filter(|i| (i / 6) % 2 == 0).collect();
    let odd: Vec<u64> = ids.iter().copied().filter(|i| (i / 6) % 2 == 1).collect();
    let mut rep = Report::new("crashmon");
    if !even.is_empty() {
        rep.merge(run_all::<String>(&p, &even, threads, deadline));
    }
    if !odd.is_empty() {
        rep.merge(run_all::<Vec<u8>>(&p, &odd, threads, deadline));
    }
    rep.count("wall_ms", started.elapsed().as_millis() as u64);
    rep.emit(args.get("out"));
}
