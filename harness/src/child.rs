//! Running the driver child under the interposer, and reading what it left behind.

use std::collections::BTreeMap;
use std::path::{Path, PathBuf};
use std::process::{Command, Stdio};
use std::time::{Duration, Instant};

use crate::json::J;
use crate::oracle::Observable;
use crate::session::Outcome;

#[derive(Clone, Debug)]
pub struct Tools {
    pub driver: PathBuf,
    pub shim: PathBuf,
}

impl Tools {
    pub fn locate() -> Tools {
        let exe = std::env::current_exe().expect("current_exe");
        let dir = exe.parent().unwrap().to_path_buf();
        let driver = dir.join("driver");
        let shim = std::env::var("FSSHIM_SO").map(PathBuf::from).unwrap_or_else(|_| {
            // harness/target/release/ -> ../../../shim/fsshim.so
            dir.join("../../../shim/fsshim.so")
        });
        Tools { driver, shim }
    }
}

#[derive(Clone, Debug, Default)]
pub struct ShimEnv {
    pub root: Option<PathBuf>,
    pub trace: Option<PathBuf>,
    pub kill_at: Option<u64>,
    pub fail_at: Option<u64>,
    pub errno: Option<i32>,
}

#[derive(Debug)]
pub struct ChildResult {
    pub code: Option<i32>,
    pub signal: Option<i32>,
    pub stderr: String,
    pub timed_out: bool,
}

/// Run the driver with the given arguments; a generous wall-clock watchdog kills it (which the
/// caller must treat as inconclusive, never as a verdict).
pub fn run_driver(tools: &Tools, args: &[String], shim: &ShimEnv, timeout: Duration) -> ChildResult {
    let mut cmd = Command::new(&tools.driver);
    cmd.args(args).stdin(Stdio::null()).stdout(Stdio::null()).stderr(Stdio::piped());
    cmd.env_remove("RUST_LOG");
    if let Some(root) = &shim.root {
        cmd.env("LD_PRELOAD", &tools.shim);
        cmd.env("FSSHIM_ROOT", root);
        if let Some(t) = &shim.trace {
            cmd.env("FSSHIM_TRACE", t);
        }
        if let Some(k) = shim.kill_at {
            cmd.env("FSSHIM_KILL_AT", k.to_string());
        }
        if let Some(k) = shim.fail_at {
            cmd.env("FSSHIM_FAIL_AT", k.to_string());
        }
        if let Some(e) = shim.errno {
            cmd.env("FSSHIM_ERRNO", e.to_string());
        }
    }
    let mut child = match cmd.spawn() {
        Ok(c) => c,
        Err(e) => {
            return ChildResult {
                code: None,
                signal: None,
                stderr: format!("spawn failed: {e}"),
                timed_out: false,
            };
        }
    };
    let start = Instant::now();
    let mut timed_out = false;
    loop {
        match child.try_wait() {
            Ok(Some(_)) => break,
            Ok(None) => {
                if start.elapsed() > timeout {
                    let _ = child.kill();
                    timed_out = true;
                    break;
                }
                std::thread::sleep(Duration::from_micros(300));
            }
            Err(_) => break,
        }
    }
    let out = child.wait_with_output();
    match out {
        Ok(o) => {
            use std::os::unix::process::ExitStatusExt;
            ChildResult {
                code: o.status.code(),
                signal: o.status.signal(),
                stderr: String::from_utf8_lossy(&o.stderr).chars().take(4000).collect(),
                timed_out,
            }
        }
        Err(e) => ChildResult { code: None, signal: None, stderr: e.to_string(), timed_out },
    }
}

#[derive(Clone, Debug)]
pub struct OpAck {
    pub begin_c: i64,
    pub end: Option<(i64, Result<Outcome, String>)>,
}

#[derive(Clone, Debug, Default)]
pub struct AckInfo {
    pub open_begin: Option<i64>,
    pub open_ok: Option<i64>,
    pub open_err: Option<String>,
    pub ops: BTreeMap<usize, OpAck>,
    pub versions: BTreeMap<usize, Vec<u64>>,
    pub observes: BTreeMap<i64, Observable>,
    pub close_begin: Option<i64>,
    pub done: Option<i64>,
    pub stop: Option<String>,
    /// operation indices after which the driver copied the directory (`S i`)
    pub snaps: Vec<usize>,
}

fn parse_outcome(s: &str) -> Option<Outcome> {
    if s == "unit" {
        Some(Outcome::Unit)
    } else if let Some(b) = s.strip_prefix("bool:") {
        Some(Outcome::Bool(b == "true"))
    } else {
        s.strip_prefix("count:").and_then(|c| c.parse().ok()).map(Outcome::Count)
    }
}

pub fn parse_acklog(path: &Path) -> AckInfo {
    let mut a = AckInfo::default();
    let Ok(text) = std::fs::read_to_string(path) else { return a };
    for line in text.lines() {
        let mut it = line.splitn(4, ' ');
        let tag = it.next().unwrap_or("");
        match tag {
            "OPEN-BEGIN" => a.open_begin = it.next().and_then(|x| x.parse().ok()),
            "OPEN-OK" => a.open_ok = it.next().and_then(|x| x.parse().ok()),
            "OPEN-ERR" => {
                let _c = it.next();
                a.open_err = Some(it.collect::<Vec<_>>().join(" "));
            }
            "B" => {
                if let (Some(i), Some(c)) = (
                    it.next().and_then(|x| x.parse::<usize>().ok()),
                    it.next().and_then(|x| x.parse::<i64>().ok()),
                ) {
                    a.ops.insert(i, OpAck { begin_c: c, end: None });
                }
            }
            "A" => {
                let i = it.next().and_then(|x| x.parse::<usize>().ok());
                let c = it.next().and_then(|x| x.parse::<i64>().ok());
                let rest = it.next().unwrap_or("");
                if let (Some(i), Some(c)) = (i, c) {
                    let r = if let Some(o) = rest.strip_prefix("ok ") {
                        parse_outcome(o).ok_or_else(|| format!("unparsable outcome {o}"))
                    } else {
                        Err(rest.strip_prefix("err ").unwrap_or(rest).to_string())
                    };
                    if let Some(e) = a.ops.get_mut(&i) {
                        e.end = Some((c, r));
                    }
                }
            }
            "V" => {
                if let Some(i) = it.next().and_then(|x| x.parse::<usize>().ok()) {
                    let v = it
                        .next()
                        .unwrap_or("")
                        .split(',')
                        .filter_map(|x| x.parse::<u64>().ok())
                        .collect();
                    a.versions.insert(i, v);
                }
            }
            "O" => {
                if let Some(i) = it.next().and_then(|x| x.parse::<i64>().ok()) {
                    let rest: String = it.collect::<Vec<_>>().join(" ");
                    if let Ok(j) = J::parse(&rest)
                        && let Some(o) = Observable::from_json(&j)
                    {
                        a.observes.insert(i, o);
                    }
                }
            }
            "S" => {
                if let Some(i) = it.next().and_then(|x| x.parse::<usize>().ok()) {
                    a.snaps.push(i);
                }
            }
            "CLOSE-BEGIN" => a.close_begin = it.next().and_then(|x| x.parse().ok()),
            "DONE" => a.done = it.next().and_then(|x| x.parse().ok()),
            "STOP" => a.stop = Some(it.collect::<Vec<_>>().join(" ")),
            _ => {}
        }
    }
    a
}

/// The recovery dump written by `driver recover`.
#[derive(Clone, Debug, Default)]
pub struct RecoverDump {
    pub open_ok: bool,
    pub error: Option<String>,
    pub dump1: Option<Observable>,
    pub dump_after_cleanup: Option<Observable>,
    pub dump2: Option<Observable>,
    pub dump3: Option<Observable>,
    pub orphaned: Vec<String>,
    pub missing: Vec<String>,
    pub corrupted: Vec<String>,
    pub invalid_files: Vec<String>,
    pub staging_files: Vec<String>,
    pub total_blobs: u64,
    pub cleanup: Option<J>,
    pub cleanup_error: Option<String>,
    pub continuation_results: Vec<String>,
    pub reopen_error: Option<String>,
    pub raw_present: bool,
}

fn strs(j: Option<&J>) -> Vec<String> {
    j.and_then(|a| a.as_arr())
        .map(|a| a.iter().filter_map(|x| x.as_str().map(|s| s.to_string())).collect())
        .unwrap_or_default()
}

pub fn parse_dump(path: &Path) -> RecoverDump {
    let mut d = RecoverDump::default();
    let Ok(text) = std::fs::read_to_string(path) else { return d };
    let Ok(j) = J::parse(&text) else { return d };
    d.raw_present = true;
    d.open_ok = j.get("open").and_then(|x| x.as_str()) == Some("ok");
    d.error = j.get("error").and_then(|x| x.as_str()).map(|s| s.to_string());
    d.dump1 = j.get("dump1").and_then(Observable::from_json);
    d.dump_after_cleanup = j.get("dump_after_cleanup").and_then(Observable::from_json);
    d.dump2 = j.get("dump2").and_then(Observable::from_json);
    d.dump3 = j.get("dump3").and_then(Observable::from_json);
    if let Some(s) = j.get("scan") {
        d.orphaned = strs(s.get("orphaned"));
        d.missing = strs(s.get("missing"));
        d.corrupted = strs(s.get("corrupted"));
        d.invalid_files = strs(s.get("invalid_files"));
        d.staging_files = strs(s.get("staging_files"));
        d.total_blobs = s.get("total_blobs").and_then(|x| x.as_i64()).unwrap_or(0) as u64;
    }
    d.cleanup = j.get("cleanup").cloned();
    d.cleanup_error = j.get("cleanup_error").and_then(|x| x.as_str()).map(|s| s.to_string());
    d.continuation_results = strs(j.get("continuation_results"));
    d.reopen_error = j.get("reopen_error").and_then(|x| x.as_str()).map(|s| s.to_string());
    d
}
