//! Seeded history generator over deliberately small key and content pools.

use std::ops::Bound;

use crate::keys::TestKey;
use crate::model::Model;
use crate::ops::{Content, Op, range_is_invalid};
use crate::rng::Rng;

pub const LENGTHS: &[usize] =
    &[0, 1, 5, 8, 9, 44, 100, 1000, 4096, 8191, 8192, 8193, 20_000];

#[derive(Clone, Debug)]
pub struct GenCfg {
    pub n_keys: usize,
    pub n_contents: usize,
    pub allow_tx: bool,
    pub allow_abort: bool,
    pub allow_reopen: bool,
    pub allow_checkpoint: bool,
    pub allow_range: bool,
    pub allow_big: bool,
    pub max_len: usize,
    /// never flip pre_create at reopen (65k mkdirs) unless set
    pub allow_pre_create_flip: bool,
}

impl Default for GenCfg {
    fn default() -> Self {
        GenCfg {
            n_keys: 6,
            n_contents: 5,
            allow_tx: true,
            allow_abort: true,
            allow_reopen: true,
            allow_checkpoint: true,
            allow_range: true,
            allow_big: false,
            max_len: 20_000,
            allow_pre_create_flip: false,
        }
    }
}

pub struct Gen<K: TestKey> {
    pub cfg: GenCfg,
    pub keys: Vec<K>,
    /// keys that are never written: read probes and range bounds
    pub extra: Vec<K>,
    pub contents: Vec<Content>,
    pub open_slots: Vec<usize>,
    next_slot: usize,
    next_tag: u32,
}

impl<K: TestKey> Gen<K> {
    pub fn new(rng: &mut Rng, cfg: GenCfg) -> Self {
        let mut pool = K::pool(rng, cfg.n_keys + 2);
        let extra = if pool.len() > cfg.n_keys { pool.split_off(cfg.n_keys) } else { Vec::new() };
        let mut contents = Vec::new();
        let mut tag = 1u32;
        for i in 0..cfg.n_contents {
            let len = if i == 0 && rng.chance(1, 3) {
                0
            } else if cfg.allow_big && rng.chance(1, 12) {
                rng.range(150_000, 260_000) as usize
            } else if rng.chance(1, 4) {
                rng.range(0, 3000) as usize
            } else {
                *rng.pick(LENGTHS)
            };
            contents.push(Content::new(tag, len.min(cfg.max_len.max(260_000 * usize::from(cfg.allow_big)))));
            tag += 1;
        }
        Gen { cfg, keys: pool, extra, contents, open_slots: Vec::new(), next_slot: 0, next_tag: 1000 }
    }

    pub fn probes(&self) -> Vec<K> {
        let mut v = self.keys.clone();
        v.extend(self.extra.iter().cloned());
        v
    }

    pub fn fresh_content(&mut self, len: usize) -> Content {
        self.next_tag += 1;
        Content::new(self.next_tag, len)
    }

    pub fn chunks(rng: &mut Rng, len: usize) -> Vec<usize> {
        match rng.below(9) {
            7 => vec![rng.range(1, 40) as usize],       // small header, then the rest in one write
            8 => vec![len / 3, 1, 0, 2],                // big, tiny, empty, tiny, then the rest
            0 => vec![],                       // one write of everything
            1 => vec![0, len, 0],              // empty chunks around
            2 if len <= 64 => vec![1; len],    // byte by byte
            3 => {
                // random splits
                let mut v = Vec::new();
                let mut left = len;
                while left > 0 && v.len() < 40 {
                    let c = rng.range(0, left as u64) as usize;
                    v.push(c);
                    left -= c;
                }
                v
            }
            4 => vec![len / 2],                // two halves
            5 => vec![8192.min(len), 1, 0, 8193], // around the BufWriter capacity
            _ => vec![len.saturating_sub(1)],  // all but the last byte
        }
    }

    fn key(&self, rng: &mut Rng) -> K {
        rng.pick(&self.keys).clone()
    }

    fn any_key(&self, rng: &mut Rng) -> K {
        if !self.extra.is_empty() && rng.chance(1, 5) {
            rng.pick(&self.extra).clone()
        } else {
            self.key(rng)
        }
    }

    pub fn bounds(&self, rng: &mut Rng) -> (Bound<K>, Bound<K>) {
        loop {
            let a = self.any_key(rng);
            let b = self.any_key(rng);
            let (a, b) = if a <= b { (a, b) } else { (b, a) };
            let lo = match rng.below(4) {
                0 => Bound::Unbounded,
                1 | 2 => Bound::Included(a),
                _ => Bound::Excluded(a),
            };
            let hi = match rng.below(4) {
                0 => Bound::Unbounded,
                1 | 2 => Bound::Excluded(b),
                _ => Bound::Included(b),
            };
            if !range_is_invalid(&lo, &hi) {
                return (lo, hi);
            }
        }
    }

    /// Content choice biased toward collisions: the key's current content, another key's
    /// content, a pool content.
    fn content_for(&mut self, rng: &mut Rng, model: &Model<K>, key: &K) -> Content {
        let pool = *rng.pick(&self.contents);
        match rng.below(10) {
            0 | 1 => {
                // re-put what the key already holds
                if let Some(v) = model.map.get(key)
                    && let Some(c) = self.content_matching(v)
                {
                    return c;
                }
                pool
            }
            2 => {
                // the content of some other key (shared blob)
                let vals: Vec<&Vec<u8>> = model.map.values().collect();
                if !vals.is_empty()
                    && let Some(c) = self.content_matching(rng.pick(&vals).as_slice())
                {
                    return c;
                }
                pool
            }
            _ => pool,
        }
    }

    fn content_matching(&self, bytes: &[u8]) -> Option<Content> {
        self.contents.iter().copied().find(|c| c.len == bytes.len() && c.bytes() == bytes)
    }

    pub fn next_op(&mut self, rng: &mut Rng, model: &Model<K>) -> Op<K> {
        loop {
            let r = rng.below(100);
            let op = match r {
                0..=34 => {
                    let key = self.key(rng);
                    let content = self.content_for(rng, model, &key);
                    Op::Put { chunks: Self::chunks(rng, content.len), key, content }
                }
                35..=40 if self.cfg.allow_abort => {
                    let key = self.key(rng);
                    let content = self.content_for(rng, model, &key);
                    let mut chunks = Self::chunks(rng, content.len);
                    if rng.chance(1, 3) {
                        chunks = vec![content.len]; // abort after writing everything
                    } else if rng.chance(1, 4) {
                        chunks = vec![]; // abort after writing nothing
                    }
                    Op::PutAbort { key, content, chunks }
                }
                41..=48 if self.cfg.allow_tx && self.open_slots.len() < 3 => {
                    let key = self.key(rng);
                    let content = self.content_for(rng, model, &key);
                    let slot = self.next_slot;
                    self.next_slot += 1;
                    self.open_slots.push(slot);
                    Op::TxBegin { slot, key, content }
                }
                49..=54 if !self.open_slots.is_empty() => {
                    let slot = *rng.pick(&self.open_slots);
                    Op::TxWrite { slot, n: rng.range(0, 9000) as usize }
                }
                55..=60 if !self.open_slots.is_empty() => {
                    let i = rng.usize(self.open_slots.len());
                    let slot = self.open_slots.remove(i);
                    Op::TxFinish { slot }
                }
                61..=63 if !self.open_slots.is_empty() => {
                    let i = rng.usize(self.open_slots.len());
                    let slot = self.open_slots.remove(i);
                    Op::TxDrop { slot }
                }
                64..=77 => {
                    // prefer present keys
                    let present: Vec<&K> = model.map.keys().collect();
                    let key = if !present.is_empty() && rng.chance(3, 4) {
                        (*rng.pick(&present)).clone()
                    } else {
                        self.any_key(rng)
                    };
                    Op::Remove { key }
                }
                78..=84 if self.cfg.allow_range => {
                    // now and then everything goes: the empty index (empty snapshot, nothing
                    // referenced) is a state of its own that later operations start from
                    if !model.map.is_empty() && rng.chance(1, 5) {
                        Op::RemoveRange { lo: Bound::Unbounded, hi: Bound::Unbounded }
                    } else {
                        let (lo, hi) = self.bounds(rng);
                        Op::RemoveRange { lo, hi }
                    }
                }
                85..=91 if self.cfg.allow_checkpoint => Op::Checkpoint,
                92..=99 if self.cfg.allow_reopen => {
                    self.open_slots.clear();
                    Op::Reopen {
                        flip_sync: rng.chance(1, 4),
                        pre_create: false,
                    }
                }
                _ => continue,
            };
            return op;
        }
    }
}

/// Keys of a wide regular family and one range removal over them, so that a single log record
/// exceeds the 8 KiB I/O buffer ("large-record class").
pub fn large_record_history<K: TestKey>(n_keys: usize, width: usize, shared: bool) -> Vec<Op<K>> {
    let mut ops = Vec::new();
    for i in 0..n_keys {
        let content = if shared { Content::new(7, 33) } else { Content::new(100 + i as u32, 16) };
        ops.push(Op::Put { key: K::bulk(i, width), content, chunks: vec![] });
    }
    ops.push(Op::RemoveRange { lo: Bound::Unbounded, hi: Bound::Unbounded });
    ops
}
