//! Receiver for the `verif-hooks` callbacks: a controlled scheduler over real threads.
//!
//! Serial mode: exactly one worker thread runs at a time. Every hook point and every lock
//! acquisition is a decision point at which a strategy (seeded random, sticky random, or an
//! explicit choice list used by the bounded systematic search) picks which runnable worker
//! continues. A worker whose `try_lock` fails is parked until the lock is released, so "all
//! unfinished workers are parked" is an exact deadlock verdict, and every schedule is replayable
//! from its choice list.
//!
//! Free mode: workers run in parallel; points inject seeded jitter; lock events only feed the
//! lock-order graph.
//!
//! In both modes the lock-order graph (held class -> acquired class, with mode and the set of
//! other classes held) accumulates across runs.

use std::cell::Cell;
use std::collections::{BTreeMap, BTreeSet};
use std::sync::{Arc, Condvar, Mutex, OnceLock};
use std::time::{Duration, Instant};

use crate::rng::Rng;

thread_local! {
    static CUR: Cell<Option<usize>> = const { Cell::new(None) };
}

/// Decision points per run after which a run is declared stuck (terminating runs of the small
/// programs used here need a few hundred).
pub const DECISION_LIMIT: usize = 20_000;

#[derive(Clone, Copy, Debug, PartialEq, Eq)]
enum WState {
    NotStarted,
    Runnable,
    Blocked(usize),
    Finished,
}

#[derive(Clone, Debug)]
pub enum Strategy {
    /// uniform choice among runnable workers at every decision point
    Random { seed: u64 },
    /// keep running the current worker with probability `stay`/100, else switch
    Sticky { seed: u64, stay: u64 },
    /// follow `prefix` (indices into the sorted runnable set), then never preempt
    Prefix { prefix: Vec<usize> },
    /// delay-site sweep: whenever a worker reaches the event `site`, it is parked until some
    /// other worker has completed one whole client operation (or nobody else can run); applied at
    /// every occurrence, so a retry loop that comes back to the site is parked again
    Stall { site: String },
}

#[derive(Clone, Debug)]
pub struct Decision {
    /// runnable workers at this point (sorted)
    pub runnable: Vec<usize>,
    /// worker that was running when the decision was taken (None at start / after finish)
    pub current: Option<usize>,
    pub chosen: usize,
}

#[derive(Clone, Debug, Default)]
pub struct RunOutcome {
    /// global order of (worker, event)
    pub events: Vec<(usize, String)>,
    pub decisions: Vec<Decision>,
    pub deadlock: Option<String>,
    /// a run took more decisions than any terminating program of this size can need
    pub livelock: Option<String>,
    pub diverged: bool,
    pub watchdog: bool,
    pub hook_findings: Vec<(String, String)>,
    pub points_checked: u64,
}

#[derive(Clone, Debug, PartialEq, Eq, PartialOrd, Ord)]
pub struct Edge {
    pub from: String,
    pub from_excl: bool,
    pub to: String,
    pub to_excl: bool,
    /// other lock classes held when `to` was acquired (besides `from`)
    pub guards: Vec<String>,
    pub same_lock: bool,
}

pub type Monitor = Box<dyn FnMut(&MonitorCtx) -> Vec<(String, String)> + Send>;

pub struct MonitorCtx<'a> {
    pub worker: usize,
    pub event: &'a str,
    /// a worker holds the index state lock exclusively: reading the index would block
    pub state_write_held: bool,
    /// per worker: has passed "commit:after_rename" in its current operation
    pub renamed: &'a [bool],
}

struct Inner {
    active: bool,
    serial: bool,
    n: usize,
    state: Vec<WState>,
    current: Option<usize>,
    strategy: Strategy,
    rng: Rng,
    step: usize,
    out: RunOutcome,
    held: BTreeMap<usize, Vec<(usize, bool)>>,
    class: BTreeMap<usize, &'static str>,
    renamed: Vec<bool>,
    monitor: Option<Monitor>,
    jitter: u64,
    aborted: bool,
    /// event at which the current decision is taken (for the delay-site strategy)
    last_event: String,
    /// worker parked by the delay-site strategy
    stalled: Option<usize>,
}

pub struct Sched {
    m: Mutex<Inner>,
    cv: Condvar,
    edges: Mutex<BTreeSet<Edge>>,
}

static SCHED: OnceLock<Arc<Sched>> = OnceLock::new();

struct Rx;

impl cassadilia::verif::Receiver for Rx {
    fn point(&self, name: &'static str) {
        if let Some(w) = CUR.get() {
            sched().on_point(w, name);
        }
    }
    fn lock_before(&self, _id: usize, class: &'static str, exclusive: bool) {
        if let Some(w) = CUR.get() {
            let ev = format!("lock:{}:{}", short_class(class), if exclusive { "x" } else { "r" });
            sched().on_point_dyn(w, ev);
        }
    }
    fn lock_contended(&self, id: usize, _class: &'static str, _exclusive: bool) -> bool {
        match CUR.get() {
            Some(w) => sched().on_contended(w, id),
            None => false,
        }
    }
    fn lock_acquired(&self, id: usize, class: &'static str, exclusive: bool) {
        if let Some(w) = CUR.get() {
            sched().on_acquired(w, id, class, exclusive);
        }
    }
    fn lock_released(&self, id: usize, _class: &'static str, exclusive: bool) {
        if let Some(w) = CUR.get() {
            sched().on_released(w, id, exclusive);
        }
    }
}

pub fn short_class(class: &str) -> &'static str {
    if class.contains("WalManager") {
        "wal"
    } else if class.contains("IndexState") {
        "state"
    } else if class.contains("HashMap") || class.contains("Intent") || class.contains("intent") {
        "intents"
    } else {
        "other"
    }
}

pub fn sched() -> &'static Arc<Sched> {
    SCHED.get_or_init(|| {
        let s = Arc::new(Sched {
            m: Mutex::new(Inner {
                active: false,
                serial: true,
                n: 0,
                state: Vec::new(),
                current: None,
                strategy: Strategy::Random { seed: 0 },
                rng: Rng::new(0),
                step: 0,
                out: RunOutcome::default(),
                held: BTreeMap::new(),
                class: BTreeMap::new(),
                renamed: Vec::new(),
                monitor: None,
                jitter: 0,
                aborted: false,
                last_event: String::new(),
                stalled: None,
            }),
            cv: Condvar::new(),
            edges: Mutex::new(BTreeSet::new()),
        });
        cassadilia::verif::install(Box::new(Rx));
        s
    })
}

/// Run `f` with hooks disabled on this thread (monitor code, set-up code).
pub fn unmanaged<T>(f: impl FnOnce() -> T) -> T {
    let old = CUR.replace(None);
    let r = f();
    CUR.set(old);
    r
}

impl Sched {
    fn choose(inner: &mut Inner, runnable: &[usize], current: Option<usize>) -> usize {
        debug_assert!(!runnable.is_empty());
        let stall_site: Option<String> =
            if let Strategy::Stall { site } = &inner.strategy { Some(site.clone()) } else { None };
        let chosen = match &inner.strategy {
            Strategy::Stall { .. } => {
                let site = stall_site.unwrap_or_default();
                let at_site = inner.last_event == site;
                let op_done = inner.last_event == "client:between_ops";
                match current {
                    // park the worker that just reached the site, if somebody else can run
                    Some(c) if at_site && runnable.iter().any(|w| *w != c) => {
                        inner.stalled = Some(c);
                        *runnable.iter().find(|w| **w != c).unwrap()
                    }
                    // another worker finished an operation: the parked one continues
                    Some(_) if op_done && inner.stalled.is_some_and(|s| runnable.contains(&s)) => {
                        inner.stalled.take().unwrap()
                    }
                    Some(c) if runnable.contains(&c) => c,
                    _ => {
                        // the running worker finished (current = None) or is parked on a lock
                        let finished = current.is_none();
                        match inner.stalled {
                            Some(s) if runnable.contains(&s) && (finished || runnable.len() == 1) => {
                                inner.stalled = None;
                                s
                            }
                            _ => *runnable.iter().find(|w| Some(**w) != inner.stalled).unwrap_or(&runnable[0]),
                        }
                    }
                }
            }
            Strategy::Random { .. } => runnable[inner.rng.usize(runnable.len())],
            Strategy::Sticky { stay, .. } => {
                let stay = *stay;
                match current {
                    Some(c) if runnable.contains(&c) && inner.rng.below(100) < stay => c,
                    _ => runnable[inner.rng.usize(runnable.len())],
                }
            }
            Strategy::Prefix { prefix } => {
                if inner.step < prefix.len() {
                    let idx = prefix[inner.step];
                    if idx < runnable.len() {
                        runnable[idx]
                    } else {
                        inner.out.diverged = true;
                        runnable[0]
                    }
                } else {
                    match current {
                        Some(c) if runnable.contains(&c) => c,
                        _ => runnable[0],
                    }
                }
            }
        };
        inner.out.decisions.push(Decision { runnable: runnable.to_vec(), current, chosen });
        inner.step += 1;
        chosen
    }

    fn runnable(inner: &Inner) -> Vec<usize> {
        (0..inner.n).filter(|i| inner.state[*i] == WState::Runnable).collect()
    }

    fn describe_deadlock(inner: &Inner) -> String {
        let mut parts = Vec::new();
        for w in 0..inner.n {
            if let WState::Blocked(id) = inner.state[w] {
                let wants = inner.class.get(&id).map(|c| short_class(c)).unwrap_or("?");
                let holds: Vec<String> = inner
                    .held
                    .iter()
                    .filter(|(_, hs)| hs.iter().any(|(hw, _)| *hw == w))
                    .map(|(id, hs)| {
                        let excl = hs.iter().find(|(hw, _)| *hw == w).map(|x| x.1).unwrap_or(true);
                        format!(
                            "{}({})",
                            inner.class.get(id).map(|c| short_class(c)).unwrap_or("?"),
                            if excl { "x" } else { "r" }
                        )
                    })
                    .collect();
                let holders: Vec<usize> = inner
                    .held
                    .get(&id)
                    .map(|hs| hs.iter().map(|x| x.0).collect())
                    .unwrap_or_default();
                parts.push(format!("worker {w} holds [{}] waits for {wants} held by {holders:?}", holds.join(",")));
            }
        }
        parts.join("; ")
    }

    /// Hand the token to the next worker and wait until it comes back to `w`.
    fn switch_from(&self, mut g: std::sync::MutexGuard<'_, Inner>, w: usize, include_self: bool) {
        let mut runnable = Self::runnable(&g);
        if !include_self {
            runnable.retain(|x| *x != w);
        }
        if runnable.is_empty() {
            // nobody can run: everyone left is parked on a lock
            if g.deadlock_candidates() {
                let d = Self::describe_deadlock(&g);
                g.out.deadlock = Some(d);
            }
            g.aborted = true;
            self.cv.notify_all();
            return;
        }
        if g.step > DECISION_LIMIT {
            // bounded progress: the programs driven here finish within a few hundred decisions
            let tail: Vec<String> =
                g.out.events.iter().rev().take(12).rev().map(|(w, e)| format!("w{w} {e}")).collect();
            g.out.livelock = Some(format!(
                "more than {DECISION_LIMIT} decision points without all workers finishing; worker {w} is still running; last events: {}",
                tail.join(", ")
            ));
            g.aborted = true;
            self.cv.notify_all();
            return;
        }
        let cur = g.current;
        let next = Self::choose(&mut g, &runnable, cur);
        g.current = Some(next);
        if next == w {
            return;
        }
        self.cv.notify_all();
        while g.current != Some(w) && !g.aborted {
            g = self.cv.wait(g).unwrap();
        }
    }

    fn run_monitor(&self, g: &mut std::sync::MutexGuard<'_, Inner>, w: usize, ev: &str) {
        if g.monitor.is_none() {
            return;
        }
        let state_write_held = g.held.iter().any(|(id, hs)| {
            g.class.get(id).is_some_and(|c| short_class(c) == "state") && hs.iter().any(|(_, x)| *x)
        });
        let mut mon = g.monitor.take().unwrap();
        let renamed = g.renamed.clone();
        let ctx = MonitorCtx { worker: w, event: ev, state_write_held, renamed: &renamed };
        // the monitor runs on this thread with hooks off; in serial mode nobody else runs
        let found = unmanaged(|| mon(&ctx));
        g.out.points_checked += 1;
        for f in found {
            if g.out.hook_findings.len() < 20 {
                g.out.hook_findings.push(f);
            }
        }
        g.monitor = Some(mon);
    }

    fn on_point(&self, w: usize, name: &'static str) {
        self.on_point_dyn(w, name.to_string());
    }

    fn on_point_dyn(&self, w: usize, ev: String) {
        let mut g = self.m.lock().unwrap();
        if !g.active || g.aborted {
            return;
        }
        if ev == "commit:after_rename" {
            g.renamed[w] = true;
        } else if ev == "apply_put:after_apply" {
            // the index now references the blob: the "about to reference" window is over
            g.renamed[w] = false;
        }
        if g.out.events.len() < 100_000 {
            g.out.events.push((w, ev.clone()));
        }
        if g.serial {
            self.run_monitor(&mut g, w, &ev);
            g.last_event = ev;
            self.switch_from(g, w, true);
        } else {
            let j = g.jitter;
            let r = if j > 0 { g.rng.below(100) } else { 100 };
            let us = g.rng.below(300);
            drop(g);
            if r < j {
                if us < 100 {
                    std::thread::yield_now();
                } else {
                    std::thread::sleep(Duration::from_micros(us));
                }
            }
        }
    }

    fn on_contended(&self, w: usize, id: usize) -> bool {
        let mut g = self.m.lock().unwrap();
        if !g.active || !g.serial || g.aborted {
            return false;
        }
        g.state[w] = WState::Blocked(id);
        g.last_event = "blocked".to_string();
        if g.out.events.len() < 100_000 {
            g.out.events.push((w, "blocked".to_string()));
        }
        self.switch_from(g, w, false);
        let g = self.m.lock().unwrap();
        // woken: either the lock was released (retry) or the run was aborted (block for real)
        !g.aborted
    }

    fn on_acquired(&self, w: usize, id: usize, class: &'static str, excl: bool) {
        let mut g = self.m.lock().unwrap();
        if !g.active {
            return;
        }
        g.class.insert(id, class);
        // lock-order edges from everything this worker already holds
        let mine: Vec<(usize, bool)> = g
            .held
            .iter()
            .filter_map(|(hid, hs)| hs.iter().find(|(hw, _)| *hw == w).map(|(_, e)| (*hid, *e)))
            .collect();
        if !mine.is_empty() {
            let mut edges = self.edges.lock().unwrap();
            for (hid, hexcl) in &mine {
                let guards: Vec<String> = mine
                    .iter()
                    .filter(|(o, _)| o != hid)
                    .map(|(o, _)| short_class(g.class.get(o).copied().unwrap_or("?")).to_string())
                    .collect();
                edges.insert(Edge {
                    from: short_class(g.class.get(hid).copied().unwrap_or("?")).to_string(),
                    from_excl: *hexcl,
                    to: short_class(class).to_string(),
                    to_excl: excl,
                    guards,
                    same_lock: *hid == id,
                });
            }
        }
        g.held.entry(id).or_default().push((w, excl));
    }

    fn on_released(&self, w: usize, id: usize, excl: bool) {
        let mut g = self.m.lock().unwrap();
        if !g.active {
            return;
        }
        if let Some(hs) = g.held.get_mut(&id) {
            if let Some(pos) = hs.iter().position(|(hw, e)| *hw == w && *e == excl) {
                hs.remove(pos);
            }
            if hs.is_empty() {
                g.held.remove(&id);
            }
        }
        for i in 0..g.n {
            if g.state[i] == WState::Blocked(id) {
                g.state[i] = WState::Runnable;
            }
        }
    }

    pub fn edges(&self) -> Vec<Edge> {
        self.edges.lock().unwrap().iter().cloned().collect()
    }
}

impl Inner {
    fn deadlock_candidates(&self) -> bool {
        self.state.iter().any(|s| matches!(s, WState::Blocked(_)))
    }
}

pub type Work = Box<dyn FnOnce() + Send>;

/// Run the workers under the scheduler. `per_op_reset(w)` style state is handled by the caller
/// through `mark_op_end`.
pub fn run(
    workers: Vec<Work>,
    serial: bool,
    strategy: Strategy,
    monitor: Option<Monitor>,
    jitter: u64,
    watchdog: Duration,
) -> RunOutcome {
    let s = sched().clone();
    let n = workers.len();
    {
        let mut g = s.m.lock().unwrap();
        let seed = match &strategy {
            Strategy::Random { seed } | Strategy::Sticky { seed, .. } => *seed,
            Strategy::Prefix { .. } | Strategy::Stall { .. } => 0,
        };
        *g = Inner {
            active: true,
            serial,
            n,
            state: vec![WState::NotStarted; n],
            current: None,
            strategy,
            rng: Rng::new(seed),
            step: 0,
            out: RunOutcome::default(),
            held: BTreeMap::new(),
            class: BTreeMap::new(),
            renamed: vec![false; n],
            monitor,
            jitter,
            aborted: false,
            last_event: String::new(),
            stalled: None,
        };
    }
    let mut handles = Vec::new();
    let started = Arc::new((Mutex::new(0usize), Condvar::new()));
    for (i, work) in workers.into_iter().enumerate() {
        let s2 = s.clone();
        let st = started.clone();
        handles.push(std::thread::spawn(move || {
            CUR.set(Some(i));
            {
                let mut g = s2.m.lock().unwrap();
                g.state[i] = WState::Runnable;
            }
            {
                let (m, cv) = &*st;
                *m.lock().unwrap() += 1;
                cv.notify_all();
            }
            if s2.m.lock().unwrap().serial {
                // wait for the token
                let mut g = s2.m.lock().unwrap();
                while g.current != Some(i) && !g.aborted {
                    g = s2.cv.wait(g).unwrap();
                }
            }
            let r = std::panic::catch_unwind(std::panic::AssertUnwindSafe(work));
            // finish: pass the token on
            let mut g = s2.m.lock().unwrap();
            g.state[i] = WState::Finished;
            if let Err(p) = r {
                let msg = if let Some(s) = p.downcast_ref::<String>() {
                    s.clone()
                } else if let Some(s) = p.downcast_ref::<&str>() {
                    (*s).to_string()
                } else {
                    "panic".into()
                };
                let at = crate::report::last_panic_location();
                if crate::report::panic_is_in_harness(&at) {
                    g.out.hook_findings.push(("harness panicked".into(), format!("{msg} (at {at})")));
                } else {
                    g.out.hook_findings.push(("worker panicked".into(), format!("{msg} (at {at})")));
                }
            }
            // anything this worker still "holds" in our table is gone with its stack
            let ids: Vec<usize> = g.held.keys().copied().collect();
            for id in ids {
                if let Some(hs) = g.held.get_mut(&id) {
                    hs.retain(|(hw, _)| *hw != i);
                    if hs.is_empty() {
                        g.held.remove(&id);
                        for j in 0..g.n {
                            if g.state[j] == WState::Blocked(id) {
                                g.state[j] = WState::Runnable;
                            }
                        }
                    }
                }
            }
            if g.serial && !g.aborted {
                let runnable = Sched::runnable(&g);
                if runnable.is_empty() {
                    if g.deadlock_candidates() {
                        let d = Sched::describe_deadlock(&g);
                        g.out.deadlock = Some(d);
                        g.aborted = true;
                    }
                    g.current = None;
                } else {
                    let next = Sched::choose(&mut g, &runnable, None);
                    g.current = Some(next);
                }
            }
            s2.cv.notify_all();
            CUR.set(None);
        }));
    }
    // wait until all workers have registered, then hand out the first token
    {
        let (m, cv) = &*started;
        let mut c = m.lock().unwrap();
        while *c < n {
            c = cv.wait(c).unwrap();
        }
    }
    if serial {
        let mut g = s.m.lock().unwrap();
        let runnable = Sched::runnable(&g);
        if !runnable.is_empty() {
            let first = Sched::choose(&mut g, &runnable, None);
            g.current = Some(first);
        }
        drop(g);
        s.cv.notify_all();
    }
    // wait for completion (or deadlock / watchdog)
    let start = Instant::now();
    loop {
        {
            let g = s.m.lock().unwrap();
            let all_done = g.state.iter().all(|x| *x == WState::Finished);
            if all_done {
                break;
            }
            if g.out.deadlock.is_some() || g.out.livelock.is_some() {
                break;
            }
        }
        if start.elapsed() > watchdog {
            let mut g = s.m.lock().unwrap();
            g.out.watchdog = true;
            g.aborted = true;
            s.cv.notify_all();
            break;
        }
        std::thread::sleep(Duration::from_micros(200));
    }
    let (out, dead) = {
        let mut g = s.m.lock().unwrap();
        g.active = false;
        g.monitor = None;
        let dead = g.out.deadlock.is_some() || g.out.livelock.is_some() || g.out.watchdog;
        (std::mem::take(&mut g.out), dead)
    };
    if !dead {
        for h in handles {
            let _ = h.join();
        }
    }
    // on deadlock / watchdog the worker threads are stuck for real and are leaked; the caller
    // reports and ends the process
    out
}

/// Called by a worker between two of its operations.
pub fn mark_op_end() {
    if let Some(w) = CUR.get() {
        let s = sched();
        let mut g = s.m.lock().unwrap();
        if g.active && w < g.renamed.len() {
            g.renamed[w] = false;
        }
    }
}

/// Explicit decision point outside the store (between two client operations).
pub fn client_point(name: &'static str) {
    if let Some(w) = CUR.get() {
        sched().on_point(w, name);
    }
}

/// Hash of the global event order: identifies an interleaving.
pub fn interleaving_id(out: &RunOutcome) -> u64 {
    let mut h = blake3::Hasher::new();
    for (w, e) in &out.events {
        h.update(&[*w as u8]);
        h.update(e.as_bytes());
        h.update(&[0]);
    }
    u64::from_le_bytes(h.finalize().as_bytes()[0..8].try_into().unwrap())
}

/// Cycles in the lock-order graph that could deadlock: two classes A,B with edges A->B and B->A
/// (by any workers), not protected by a common guard class, not both shared-shared.
pub fn lock_order_cycles(edges: &[Edge]) -> Vec<String> {
    let mut out = Vec::new();
    for e in edges {
        if e.same_lock {
            if !(e.from_excl || e.to_excl) {
                out.push(format!(
                    "recursive shared acquisition of {} while holding it (deadlocks against a queued writer)",
                    e.to
                ));
            } else {
                out.push(format!("re-acquisition of {} while holding it", e.to));
            }
            continue;
        }
        for f in edges {
            if f.same_lock {
                continue;
            }
            if e.from == f.to && e.to == f.from && e.from < e.to {
                let common_guard = e.guards.iter().any(|g| f.guards.contains(g));
                let conflicting = (e.from_excl || f.to_excl) && (e.to_excl || f.from_excl);
                if !common_guard && conflicting {
                    out.push(format!(
                        "{}({}) -> {}({}) and {}({}) -> {}({}) without a common gate",
                        e.from,
                        if e.from_excl { "x" } else { "r" },
                        e.to,
                        if e.to_excl { "x" } else { "r" },
                        f.from,
                        if f.from_excl { "x" } else { "r" },
                        f.to,
                        if f.to_excl { "x" } else { "r" }
                    ));
                }
            }
        }
    }
    out.sort();
    out.dedup();
    out
}
