//! Small deterministic PRNG (splitmix64 seeding + xoshiro256**). No external crates.

#[derive(Clone, Debug)]
pub struct Rng {
    s: [u64; 4],
}

fn splitmix(x: &mut u64) -> u64 {
    *x = x.wrapping_add(0x9E37_79B9_7F4A_7C15);
    let mut z = *x;
    z = (z ^ (z >> 30)).wrapping_mul(0xBF58_476D_1CE4_E5B9);
    z = (z ^ (z >> 27)).wrapping_mul(0x94D0_49BB_1331_11EB);
    z ^ (z >> 31)
}

impl Rng {
    pub fn new(seed: u64) -> Self {
        let mut x = seed;
        let s = [splitmix(&mut x), splitmix(&mut x), splitmix(&mut x), splitmix(&mut x)];
        Rng { s }
    }

    /// Derive an independent stream, e.g. per case.
    pub fn derive(seed: u64, stream: u64) -> Self {
        let mut x = seed ^ stream.wrapping_mul(0xD6E8_FEB8_6659_FD93);
        let a = splitmix(&mut x);
        Rng::new(a ^ stream.rotate_left(17))
    }

    pub fn next_u64(&mut self) -> u64 {
        let result = self.s[1].wrapping_mul(5).rotate_left(7).wrapping_mul(9);
        let t = self.s[1] << 17;
        self.s[2] ^= self.s[0];
        self.s[3] ^= self.s[1];
        self.s[1] ^= self.s[2];
        self.s[0] ^= self.s[3];
        self.s[2] ^= t;
        self.s[3] = self.s[3].rotate_left(45);
        result
    }

    /// Uniform in 0..n (n > 0).
    pub fn below(&mut self, n: u64) -> u64 {
        debug_assert!(n > 0);
        // multiply-shift; bias is irrelevant for test generation
        ((u128::from(self.next_u64()) * u128::from(n)) >> 64) as u64
    }

    pub fn usize(&mut self, n: usize) -> usize {
        self.below(n as u64) as usize
    }

    /// Inclusive range.
    pub fn range(&mut self, lo: u64, hi: u64) -> u64 {
        lo + self.below(hi - lo + 1)
    }

    pub fn chance(&mut self, num: u64, den: u64) -> bool {
        self.below(den) < num
    }

    pub fn pick<'a, T>(&mut self, xs: &'a [T]) -> &'a T {
        &xs[self.usize(xs.len())]
    }

    pub fn shuffle<T>(&mut self, xs: &mut [T]) {
        for i in (1..xs.len()).rev() {
            let j = self.usize(i + 1);
            xs.swap(i, j);
        }
    }

    /// Random bytes of a random length in lo..=hi.
    pub fn bytes_between(&mut self, lo: u64, hi: u64) -> Vec<u8> {
        let n = self.range(lo, hi) as usize;
        self.bytes(n)
    }

    pub fn bytes(&mut self, n: usize) -> Vec<u8> {
        let mut v = Vec::with_capacity(n);
        while v.len() < n {
            let x = self.next_u64().to_le_bytes();
            let take = (n - v.len()).min(8);
            v.extend_from_slice(&x[..take]);
        }
        v
    }
}
