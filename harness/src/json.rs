//! Minimal JSON value + writer + parser (reports, replay files). No external crates.

use std::collections::BTreeMap;
use std::fmt::Write as _;

#[derive(Clone, Debug, PartialEq)]
pub enum J {
    Null,
    Bool(bool),
    Int(i64),
    Num(f64),
    Str(String),
    Arr(Vec<J>),
    Obj(Vec<(String, J)>),
}

impl J {
    pub fn obj() -> J {
        J::Obj(Vec::new())
    }
    pub fn s(x: impl Into<String>) -> J {
        J::Str(x.into())
    }
    pub fn u(x: u64) -> J {
        J::Int(x as i64)
    }
    pub fn set(mut self, k: &str, v: J) -> J {
        self.put(k, v);
        self
    }
    pub fn put(&mut self, k: &str, v: J) {
        if let J::Obj(items) = self {
            if let Some(slot) = items.iter_mut().find(|(kk, _)| kk == k) {
                slot.1 = v;
            } else {
                items.push((k.to_string(), v));
            }
        }
    }
    pub fn get(&self, k: &str) -> Option<&J> {
        match self {
            J::Obj(items) => items.iter().find(|(kk, _)| kk == k).map(|(_, v)| v),
            _ => None,
        }
    }
    pub fn as_str(&self) -> Option<&str> {
        if let J::Str(s) = self { Some(s) } else { None }
    }
    pub fn as_i64(&self) -> Option<i64> {
        match self {
            J::Int(i) => Some(*i),
            J::Num(f) => Some(*f as i64),
            _ => None,
        }
    }
    pub fn as_arr(&self) -> Option<&[J]> {
        if let J::Arr(a) = self { Some(a) } else { None }
    }
    pub fn from_counts(m: &BTreeMap<String, u64>) -> J {
        J::Obj(m.iter().map(|(k, v)| (k.clone(), J::u(*v))).collect())
    }

    pub fn write(&self, out: &mut String) {
        match self {
            J::Null => out.push_str("null"),
            J::Bool(b) => out.push_str(if *b { "true" } else { "false" }),
            J::Int(i) => {
                let _ = write!(out, "{i}");
            }
            J::Num(f) => {
                if f.is_finite() {
                    let _ = write!(out, "{f}");
                } else {
                    out.push_str("null");
                }
            }
            J::Str(s) => write_str(s, out),
            J::Arr(a) => {
                out.push('[');
                for (i, v) in a.iter().enumerate() {
                    if i > 0 {
                        out.push(',');
                    }
                    v.write(out);
                }
                out.push(']');
            }
            J::Obj(o) => {
                out.push('{');
                for (i, (k, v)) in o.iter().enumerate() {
                    if i > 0 {
                        out.push(',');
                    }
                    write_str(k, out);
                    out.push(':');
                    v.write(out);
                }
                out.push('}');
            }
        }
    }

    pub fn to_string(&self) -> String {
        let mut s = String::new();
        self.write(&mut s);
        s
    }

    pub fn parse(text: &str) -> Result<J, String> {
        let b = text.as_bytes();
        let mut p = 0usize;
        let v = parse_val(b, &mut p)?;
        skip_ws(b, &mut p);
        if p != b.len() {
            return Err(format!("trailing data at {p}"));
        }
        Ok(v)
    }
}

fn write_str(s: &str, out: &mut String) {
    out.push('"');
    for c in s.chars() {
        match c {
            '"' => out.push_str("\\\""),
            '\\' => out.push_str("\\\\"),
            '\n' => out.push_str("\\n"),
            '\r' => out.push_str("\\r"),
            '\t' => out.push_str("\\t"),
            c if (c as u32) < 0x20 => {
                let _ = write!(out, "\\u{:04x}", c as u32);
            }
            c => out.push(c),
        }
    }
    out.push('"');
}

fn skip_ws(b: &[u8], p: &mut usize) {
    while *p < b.len() && matches!(b[*p], b' ' | b'\n' | b'\r' | b'\t') {
        *p += 1;
    }
}

fn parse_val(b: &[u8], p: &mut usize) -> Result<J, String> {
    skip_ws(b, p);
    if *p >= b.len() {
        return Err("eof".into());
    }
    match b[*p] {
        b'n' => lit(b, p, "null", J::Null),
        b't' => lit(b, p, "true", J::Bool(true)),
        b'f' => lit(b, p, "false", J::Bool(false)),
        b'"' => Ok(J::Str(parse_str(b, p)?)),
        b'[' => {
            *p += 1;
            let mut a = Vec::new();
            skip_ws(b, p);
            if *p < b.len() && b[*p] == b']' {
                *p += 1;
                return Ok(J::Arr(a));
            }
            loop {
                a.push(parse_val(b, p)?);
                skip_ws(b, p);
                match b.get(*p) {
                    Some(b',') => *p += 1,
                    Some(b']') => {
                        *p += 1;
                        return Ok(J::Arr(a));
                    }
                    _ => return Err(format!("bad array at {p}")),
                }
            }
        }
        b'{' => {
            *p += 1;
            let mut o = Vec::new();
            skip_ws(b, p);
            if *p < b.len() && b[*p] == b'}' {
                *p += 1;
                return Ok(J::Obj(o));
            }
            loop {
                skip_ws(b, p);
                let k = parse_str(b, p)?;
                skip_ws(b, p);
                if b.get(*p) != Some(&b':') {
                    return Err(format!("expected : at {p}"));
                }
                *p += 1;
                let v = parse_val(b, p)?;
                o.push((k, v));
                skip_ws(b, p);
                match b.get(*p) {
                    Some(b',') => *p += 1,
                    Some(b'}') => {
                        *p += 1;
                        return Ok(J::Obj(o));
                    }
                    _ => return Err(format!("bad object at {p}")),
                }
            }
        }
        _ => {
            let start = *p;
            while *p < b.len() && matches!(b[*p], b'-' | b'+' | b'.' | b'e' | b'E' | b'0'..=b'9') {
                *p += 1;
            }
            let t = std::str::from_utf8(&b[start..*p]).map_err(|e| e.to_string())?;
            if let Ok(i) = t.parse::<i64>() {
                Ok(J::Int(i))
            } else {
                t.parse::<f64>().map(J::Num).map_err(|e| format!("bad number {t:?}: {e}"))
            }
        }
    }
}

fn lit(b: &[u8], p: &mut usize, word: &str, v: J) -> Result<J, String> {
    if b[*p..].starts_with(word.as_bytes()) {
        *p += word.len();
        Ok(v)
    } else {
        Err(format!("bad literal at {p}"))
    }
}

fn parse_str(b: &[u8], p: &mut usize) -> Result<String, String> {
    if b.get(*p) != Some(&b'"') {
        return Err(format!("expected string at {p}"));
    }
    *p += 1;
    let mut out = Vec::new();
    while *p < b.len() {
        match b[*p] {
            b'"' => {
                *p += 1;
                return String::from_utf8(out).map_err(|e| e.to_string());
            }
            b'\\' => {
                *p += 1;
                let c = *b.get(*p).ok_or("eof in escape")?;
                *p += 1;
                match c {
                    b'n' => out.push(b'\n'),
                    b'r' => out.push(b'\r'),
                    b't' => out.push(b'\t'),
                    b'b' => out.push(8),
                    b'f' => out.push(12),
                    b'u' => {
                        let h = std::str::from_utf8(b.get(*p..*p + 4).ok_or("eof in \\u")?)
                            .map_err(|e| e.to_string())?;
                        let cp = u32::from_str_radix(h, 16).map_err(|e| e.to_string())?;
                        *p += 4;
                        let ch = char::from_u32(cp).unwrap_or('\u{fffd}');
                        let mut buf = [0u8; 4];
                        out.extend_from_slice(ch.encode_utf8(&mut buf).as_bytes());
                    }
                    other => out.push(other),
                }
            }
            c => {
                out.push(c);
                *p += 1;
            }
        }
    }
    Err("unterminated string".into())
}

pub fn hex(b: &[u8]) -> String {
    let mut s = String::with_capacity(b.len() * 2);
    for x in b {
        let _ = write!(s, "{x:02x}");
    }
    s
}

pub fn unhex(s: &str) -> Option<Vec<u8>> {
    let b = s.as_bytes();
    if b.len() % 2 != 0 {
        return None;
    }
    let nib = |c: u8| -> Option<u8> {
        match c {
            b'0'..=b'9' => Some(c - b'0'),
            b'a'..=b'f' => Some(c - b'a' + 10),
            b'A'..=b'F' => Some(c - b'A' + 10),
            _ => None,
        }
    };
    let mut out = Vec::with_capacity(b.len() / 2);
    for ch in b.chunks(2) {
        out.push(nib(ch[0])? << 4 | nib(ch[1])?);
    }
    Some(out)
}
