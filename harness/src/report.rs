//! What an engine reports: violations (tagged with the properties whose statement they
//! contradict), coverage counters, distinct non-trivial cases, samples, inconclusive runs.

use std::collections::{BTreeMap, BTreeSet};

use crate::json::J;

#[derive(Clone, Debug)]
pub struct Violation {
    /// properties whose statement this observation contradicts
    pub props: Vec<String>,
    /// stable symptom class (used in known-finding signatures)
    pub kind: String,
    /// stable class of the place / situation (used in known-finding signatures)
    pub site: String,
    /// human-readable details of this particular witness
    pub detail: String,
    /// everything needed to replay: engine, argv, history ...
    pub replay: J,
}

impl Violation {
    pub fn to_json(&self) -> J {
        J::obj()
            .set("props", J::Arr(self.props.iter().map(|p| J::s(p.clone())).collect()))
            .set("kind", J::s(self.kind.clone()))
            .set("site", J::s(self.site.clone()))
            .set("detail", J::s(self.detail.clone()))
            .set("replay", self.replay.clone())
    }
}

/// A finding of an oracle before it is bound to a replayable case.
#[derive(Clone, Debug)]
pub struct Finding {
    pub props: Vec<&'static str>,
    pub kind: String,
    pub site: String,
    pub detail: String,
}

impl Finding {
    pub fn new(props: &[&'static str], kind: &str, site: &str, detail: String) -> Self {
        Finding { props: props.to_vec(), kind: kind.into(), site: site.into(), detail }
    }
}

#[derive(Clone, Debug, Default)]
pub struct Report {
    pub engine: String,
    pub evaluations: u64,
    /// hashes of distinct non-trivial cases
    pub distinct: BTreeSet<u64>,
    pub counters: BTreeMap<String, u64>,
    pub samples: Vec<J>,
    pub violations: Vec<Violation>,
    pub inconclusive: Vec<String>,
    pub notes: Vec<String>,
}

pub const MAX_SAMPLES: usize = 6;
pub const MAX_VIOLATIONS: usize = 40;

impl Report {
    pub fn new(engine: &str) -> Self {
        Report { engine: engine.into(), ..Default::default() }
    }
    pub fn count(&mut self, name: &str, n: u64) {
        *self.counters.entry(name.to_string()).or_insert(0) += n;
    }
    pub fn max(&mut self, name: &str, n: u64) {
        let e = self.counters.entry(name.to_string()).or_insert(0);
        *e = (*e).max(n);
    }
    pub fn sample(&mut self, j: J) {
        if self.samples.len() < MAX_SAMPLES {
            self.samples.push(j);
        }
    }
    pub fn distinct_case(&mut self, bytes: &[u8]) {
        let h = blake3::hash(bytes);
        self.distinct.insert(u64::from_le_bytes(h.as_bytes()[0..8].try_into().unwrap()));
    }
    pub fn violate(&mut self, f: Finding, replay: J) {
        self.count("violations_seen", 1);
        // keep one witness per (props, kind, site) class plus a few more, the rest is counted
        let same = self
            .violations
            .iter()
            .filter(|v| v.kind == f.kind && v.site == f.site)
            .count();
        if same >= 3 || self.violations.len() >= MAX_VIOLATIONS {
            return;
        }
        self.violations.push(Violation {
            props: f.props.iter().map(|s| s.to_string()).collect(),
            kind: f.kind,
            site: f.site,
            detail: f.detail,
            replay,
        });
    }
    pub fn merge(&mut self, other: Report) {
        self.evaluations += other.evaluations;
        self.distinct.extend(other.distinct);
        for (k, v) in other.counters {
            if k.starts_with("max_") {
                self.max(&k, v);
            } else {
                self.count(&k, v);
            }
        }
        for s in other.samples {
            self.sample(s);
        }
        for v in other.violations {
            let same =
                self.violations.iter().filter(|w| w.kind == v.kind && w.site == v.site).count();
            if same < 3 && self.violations.len() < MAX_VIOLATIONS {
                self.violations.push(v);
            }
        }
        self.inconclusive.extend(other.inconclusive);
        self.notes.extend(other.notes);
    }
    pub fn to_json(&self) -> J {
        J::obj()
            .set("engine", J::s(self.engine.clone()))
            .set("evaluations", J::u(self.evaluations))
            .set("distinct_nontrivial", J::u(self.distinct.len() as u64))
            .set("counters", J::from_counts(&self.counters))
            .set("samples", J::Arr(self.samples.clone()))
            .set("violations", J::Arr(self.violations.iter().map(Violation::to_json).collect()))
            .set(
                "inconclusive",
                J::Arr(self.inconclusive.iter().take(20).map(|s| J::s(s.clone())).collect()),
            )
            .set("inconclusive_count", J::u(self.inconclusive.len() as u64))
            .set("notes", J::Arr(self.notes.iter().take(20).map(|s| J::s(s.clone())).collect()))
    }
    pub fn emit(&self, out: Option<&str>) {
        let s = self.to_json().to_string();
        match out {
            Some(p) => std::fs::write(p, s).expect("write report"),
            None => println!("{s}"),
        }
    }
}

thread_local! {
    static LAST_PANIC_AT: std::cell::RefCell<String> = const { std::cell::RefCell::new(String::new()) };
}

/// Remember where the last panic of each thread was raised, so that a caught panic can be told
/// apart: raised in harness code (`src/...` of this crate: a harness bug, inconclusive) or in the
/// store / the standard library on its behalf (an observation about the store).
pub fn install_panic_location_hook() {
    let default = std::panic::take_hook();
    std::panic::set_hook(Box::new(move |info| {
        let loc = info.location().map(|l| format!("{}:{}", l.file(), l.line())).unwrap_or_default();
        let _ = LAST_PANIC_AT.try_with(|c| *c.borrow_mut() = loc);
        default(info);
    }));
}

pub fn last_panic_location() -> String {
    LAST_PANIC_AT.try_with(|c| c.borrow().clone()).unwrap_or_default()
}

/// True if the location names a file of the harness crate itself.
pub fn panic_is_in_harness(loc: &str) -> bool {
    loc.starts_with("src/") || loc.contains("/verif/harness/src/")
}

/// Tiny argv helper: `--name value` pairs and flags.
pub struct Args {
    v: Vec<String>,
}

impl Args {
    pub fn from_env() -> Self {
        Args { v: std::env::args().skip(1).collect() }
    }
    pub fn from_vec(v: Vec<String>) -> Self {
        Args { v }
    }
    pub fn get(&self, name: &str) -> Option<&str> {
        let flag = format!("--{name}");
        self.v.iter().position(|a| *a == flag).and_then(|i| self.v.get(i + 1)).map(|s| s.as_str())
    }
    pub fn has(&self, name: &str) -> bool {
        let flag = format!("--{name}");
        self.v.iter().any(|a| *a == flag)
    }
    pub fn u64(&self, name: &str, default: u64) -> u64 {
        self.get(name).and_then(|s| s.parse().ok()).unwrap_or(default)
    }
    pub fn str(&self, name: &str, default: &str) -> String {
        self.get(name).unwrap_or(default).to_string()
    }
    pub fn positional(&self, i: usize) -> Option<&str> {
        self.v.get(i).map(|s| s.as_str())
    }
    pub fn all(&self) -> &[String] {
        &self.v
    }
}
