//! Reference model: a plain ordered map from key to bytes, plus what follows from it
//! (reference counts, statistics, expected CAS paths).

use std::collections::BTreeMap;
use std::ops::Bound;

use crate::ops::in_range;

pub type Hash32 = [u8; 32];

pub fn b3(data: &[u8]) -> Hash32 {
    *blake3::hash(data).as_bytes()
}

/// Path of a blob relative to `cas/`, derived from the documented scheme (2+2+60 lower hex),
/// not from the crate's own function.
pub fn rel_path_of(h: &Hash32) -> String {
    let hx = crate::json::hex(h);
    format!("{}/{}/{}", &hx[0..2], &hx[2..4], &hx[4..])
}

#[derive(Clone, Debug, Default, PartialEq)]
pub struct Model<K: Ord> {
    pub map: BTreeMap<K, Vec<u8>>,
}

#[derive(Clone, Debug, PartialEq, Eq)]
pub struct BlobInfo {
    pub refs: u32,
    pub len: u64,
}

impl<K: Ord + Clone> Model<K> {
    pub fn new() -> Self {
        Model { map: BTreeMap::new() }
    }
    pub fn put(&mut self, k: K, v: Vec<u8>) {
        self.map.insert(k, v);
    }
    pub fn remove(&mut self, k: &K) -> bool {
        self.map.remove(k).is_some()
    }
    pub fn remove_range(&mut self, lo: &Bound<K>, hi: &Bound<K>) -> usize {
        let ks: Vec<K> = self.map.keys().filter(|k| in_range(*k, lo, hi)).cloned().collect();
        for k in &ks {
            self.map.remove(k);
        }
        ks.len()
    }
    pub fn blobs(&self) -> BTreeMap<Hash32, BlobInfo> {
        let mut m: BTreeMap<Hash32, BlobInfo> = BTreeMap::new();
        for v in self.map.values() {
            let e = m.entry(b3(v)).or_insert(BlobInfo { refs: 0, len: v.len() as u64 });
            e.refs += 1;
        }
        m
    }
    pub fn unique_blobs(&self) -> u64 {
        self.blobs().len() as u64
    }
    pub fn total_bytes(&self) -> u64 {
        self.blobs().values().map(|b| b.len).sum()
    }
}
