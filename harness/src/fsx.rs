//! Filesystem helpers: scratch directories, listings, byte-exact tree snapshots, copies.

use std::collections::BTreeMap;
use std::path::{Path, PathBuf};
use std::sync::atomic::{AtomicU64, Ordering};

use crate::model::Hash32;

static COUNTER: AtomicU64 = AtomicU64::new(0);

pub fn scratch_base() -> PathBuf {
    let base = std::env::var("VERIF_SCRATCH").unwrap_or_else(|_| "/dev/shm".to_string());
    PathBuf::from(base).join(format!("cassadilia-verif.{}", std::process::id()))
}

/// A fresh, empty, unique directory path under the scratch base (parent exists; the
/// directory itself is NOT created, so that first-time initialisation is exercised).
pub fn fresh_path(tag: &str) -> PathBuf {
    let n = COUNTER.fetch_add(1, Ordering::Relaxed);
    let base = scratch_base();
    let _ = std::fs::create_dir_all(&base);
    base.join(format!("{tag}-{n}"))
}

pub fn cleanup_scratch() {
    let _ = std::fs::remove_dir_all(scratch_base());
}

pub struct ScratchGuard;
impl Drop for ScratchGuard {
    fn drop(&mut self) {
        cleanup_scratch();
    }
}

pub fn rm_rf(p: &Path) {
    let _ = std::fs::remove_dir_all(p);
}

/// All regular files below `dir`, as '/'-joined paths relative to `dir`, sorted.
pub fn files_rec(dir: &Path) -> Vec<String> {
    let mut out = Vec::new();
    fn walk(base: &Path, d: &Path, out: &mut Vec<String>) {
        let Ok(rd) = std::fs::read_dir(d) else { return };
        for e in rd.flatten() {
            let p = e.path();
            let Ok(ft) = e.file_type() else { continue };
            // a symbolic link to a directory (the cross-device layout plants them as shard
            // directories) is a directory, not a stray file
            if ft.is_dir() || (ft.is_symlink() && p.is_dir()) {
                walk(base, &p, out);
            } else {
                out.push(p.strip_prefix(base).unwrap().to_string_lossy().to_string());
            }
        }
    }
    walk(dir, dir, &mut out);
    out.sort();
    out
}

#[derive(Clone, Debug, PartialEq, Eq)]
pub enum Node {
    Dir,
    File { len: u64, hash: Hash32 },
    Other,
}

/// Byte-exact snapshot of a tree: relative path -> kind (+ length and content hash).
pub fn tree_snapshot(root: &Path) -> BTreeMap<String, Node> {
    let mut out = BTreeMap::new();
    fn walk(base: &Path, d: &Path, out: &mut BTreeMap<String, Node>) {
        let Ok(rd) = std::fs::read_dir(d) else { return };
        for e in rd.flatten() {
            let p = e.path();
            let rel = p.strip_prefix(base).unwrap().to_string_lossy().to_string();
            let Ok(ft) = e.file_type() else { continue };
            if ft.is_dir() {
                out.insert(rel, Node::Dir);
                walk(base, &p, out);
            } else if ft.is_file() {
                match std::fs::read(&p) {
                    Ok(b) => {
                        out.insert(
                            rel,
                            Node::File { len: b.len() as u64, hash: *blake3::hash(&b).as_bytes() },
                        );
                    }
                    Err(_) => {
                        out.insert(rel, Node::Other);
                    }
                }
            } else {
                out.insert(rel, Node::Other);
            }
        }
    }
    walk(root, root, &mut out);
    out
}

pub fn diff_snapshots(a: &BTreeMap<String, Node>, b: &BTreeMap<String, Node>) -> Vec<String> {
    let mut d = Vec::new();
    for (k, v) in a {
        match b.get(k) {
            None => d.push(format!("removed {k}")),
            Some(w) if w != v => d.push(format!("changed {k}")),
            _ => {}
        }
    }
    for k in b.keys() {
        if !a.contains_key(k) {
            d.push(format!("added {k}"));
        }
    }
    d
}

pub fn copy_tree(src: &Path, dst: &Path) -> std::io::Result<()> {
    std::fs::create_dir_all(dst)?;
    for e in std::fs::read_dir(src)? {
        let e = e?;
        let ft = e.file_type()?;
        let to = dst.join(e.file_name());
        if ft.is_dir() {
            copy_tree(&e.path(), &to)?;
        } else if ft.is_file() {
            std::fs::copy(e.path(), &to)?;
        }
    }
    Ok(())
}

/// Concatenated bytes of all WAL segments in id order (for "no log record appeared" checks).
pub fn wal_bytes(root: &Path) -> Vec<(u64, Vec<u8>)> {
    crate::disk::list_segments(root)
        .into_iter()
        .map(|(id, p)| (id, std::fs::read(p).unwrap_or_default()))
        .collect()
}
