//! Executes operations against a real `Cas<K>` (one handle, open transactions kept in
//! slots) and, separately, against the reference model.

use std::collections::BTreeMap;
use std::num::NonZeroU64;
use std::path::{Path, PathBuf};

use cassadilia::{Cas, Config, LibError, OrphanStats, SyncMode, Transaction};

use crate::keys::TestKey;
use crate::model::Model;
use crate::ops::{Content, Op};

#[derive(Clone, Debug, PartialEq, Eq)]
pub enum Outcome {
    Unit,
    Bool(bool),
    Count(usize),
}

pub fn config(n_ops: u64, sync: bool, pre_create: bool, scan: bool, verify: bool) -> Config {
    Config {
        sync_mode: if sync { SyncMode::Sync } else { SyncMode::Async },
        num_ops_per_wal: NonZeroU64::new(n_ops).expect("n_ops > 0"),
        pre_create_cas_dirs: pre_create,
        scan_orphans_on_startup: scan,
        verify_blob_integrity: verify,
        fail_on_integrity_errors: true,
    }
}

struct OpenTx<K: TestKey> {
    tx: Transaction<'static, K>,
    content: Content,
    written: usize,
}

pub struct Session<K: TestKey> {
    pub root: PathBuf,
    pub cfg: Config,
    cas: *mut Cas<K>,
    txs: BTreeMap<usize, OpenTx<K>>,
}

// The raw pointer is an owned Box; Cas<K> is Send + Sync for our key types.
unsafe impl<K: TestKey> Send for Session<K> {}

impl<K: TestKey> Session<K> {
    pub fn open(root: &Path, cfg: Config) -> Result<Self, LibError> {
        let cas = Cas::<K>::open(root, cfg.clone())?;
        Ok(Session {
            root: root.to_path_buf(),
            cfg,
            cas: Box::into_raw(Box::new(cas)),
            txs: BTreeMap::new(),
        })
    }

    pub fn open_with_recover(
        root: &Path,
        cfg: Config,
    ) -> Result<(Self, Option<OrphanStats<K>>), LibError> {
        let (cas, stats) = Cas::<K>::open_with_recover(root, cfg.clone())?;
        Ok((
            Session {
                root: root.to_path_buf(),
                cfg,
                cas: Box::into_raw(Box::new(cas)),
                txs: BTreeMap::new(),
            },
            stats,
        ))
    }

    pub fn cas(&self) -> &Cas<K> {
        unsafe { &*self.cas }
    }

    fn cas_static(&self) -> &'static Cas<K> {
        // Transactions stored in `txs` never outlive the Box: `close_handle` drops them first.
        unsafe { &*self.cas }
    }

    pub fn open_tx_count(&self) -> usize {
        self.txs.len()
    }

    fn close_handle(&mut self) {
        self.txs.clear();
        if !self.cas.is_null() {
            unsafe { drop(Box::from_raw(self.cas)) };
            self.cas = std::ptr::null_mut();
        }
    }

    /// Drop the handle (and any open transaction) and open the directory again.
    pub fn reopen(&mut self, cfg: Config) -> Result<(), LibError> {
        self.close_handle();
        let cas = Cas::<K>::open(&self.root, cfg.clone())?;
        self.cfg = cfg;
        self.cas = Box::into_raw(Box::new(cas));
        Ok(())
    }

    pub fn is_open(&self) -> bool {
        !self.cas.is_null()
    }

    pub fn close(mut self) {
        self.close_handle();
    }

    pub fn put_chunks(&self, key: &K, data: &[u8], chunks: &[usize]) -> Result<(), String> {
        let mut tx = self.cas().put(key.clone()).map_err(|e| err_chain(&e))?;
        write_chunks(&mut tx, data, chunks)?;
        tx.finish().map_err(|e| err_chain(&e))
    }

    pub fn exec(&mut self, op: &Op<K>) -> Result<Outcome, String> {
        match op {
            Op::Put { key, content, chunks } => {
                let data = content.bytes();
                self.put_chunks(key, &data, chunks)?;
                Ok(Outcome::Unit)
            }
            Op::PutAbort { key, content, chunks } => {
                let data = content.bytes();
                let mut tx = self.cas().put(key.clone()).map_err(|e| err_chain(&e))?;
                // only the listed chunks are written (no remainder): [] = nothing at all
                let mut p = 0usize;
                for c in chunks {
                    let end = (p + c).min(data.len());
                    tx.write(&data[p..end]).map_err(|e| err_chain(&e))?;
                    p = end;
                }
                drop(tx);
                Ok(Outcome::Unit)
            }
            Op::TxBegin { slot, key, content } => {
                let tx = self.cas_static().put(key.clone()).map_err(|e| err_chain(&e))?;
                self.txs.insert(*slot, OpenTx { tx, content: *content, written: 0 });
                Ok(Outcome::Unit)
            }
            Op::TxWrite { slot, n } => {
                let t = self.txs.get_mut(slot).ok_or("harness: no such slot")?;
                let data = t.content.bytes();
                let end = (t.written + *n).min(data.len());
                t.tx.write(&data[t.written..end]).map_err(|e| err_chain(&e))?;
                t.written = end;
                Ok(Outcome::Unit)
            }
            Op::TxFinish { slot } => {
                let mut t = self.txs.remove(slot).ok_or("harness: no such slot")?;
                let data = t.content.bytes();
                if t.written < data.len() {
                    t.tx.write(&data[t.written..]).map_err(|e| err_chain(&e))?;
                }
                t.tx.finish().map_err(|e| err_chain(&e))?;
                Ok(Outcome::Unit)
            }
            Op::TxDrop { slot } => {
                self.txs.remove(slot);
                Ok(Outcome::Unit)
            }
            Op::Remove { key } => {
                self.cas().remove(key).map(Outcome::Bool).map_err(|e| err_chain(&e))
            }
            Op::RemoveRange { lo, hi } => self
                .cas()
                .remove_range((lo.clone(), hi.clone()))
                .map(Outcome::Count)
                .map_err(|e| err_chain(&e)),
            Op::Checkpoint => {
                self.cas().checkpoint().map(|()| Outcome::Unit).map_err(|e| err_chain(&e))
            }
            Op::Reopen { flip_sync, pre_create } => {
                let mut cfg = self.cfg.clone();
                if *flip_sync {
                    cfg.sync_mode = match cfg.sync_mode {
                        SyncMode::Sync => SyncMode::Async,
                        SyncMode::Async => SyncMode::Sync,
                    };
                }
                cfg.pre_create_cas_dirs = *pre_create;
                self.reopen(cfg).map(|()| Outcome::Unit).map_err(|e| err_chain(&e))
            }
        }
    }
}

impl<K: TestKey> Drop for Session<K> {
    fn drop(&mut self) {
        self.close_handle();
    }
}

pub fn write_chunks<K>(
    tx: &mut Transaction<'_, K>,
    data: &[u8],
    chunks: &[usize],
) -> Result<(), String> {
    let mut p = 0usize;
    for c in chunks {
        let end = (p + c).min(data.len());
        tx.write(&data[p..end]).map_err(|e| err_chain(&e))?;
        p = end;
    }
    if p < data.len() {
        tx.write(&data[p..]).map_err(|e| err_chain(&e))?;
    }
    Ok(())
}

/// Error with its whole source chain, so call-site classes can be derived from it.
pub fn err_chain(e: &dyn std::error::Error) -> String {
    let mut s = format!("{e}");
    let mut cur = e.source();
    while let Some(c) = cur {
        s.push_str(" <- ");
        s.push_str(&format!("{c}"));
        cur = c.source();
    }
    s
}

/// The model side of a history: applies ops and says what the API must have returned.
#[derive(Clone, Debug)]
pub struct ModelRunner<K: TestKey> {
    pub model: Model<K>,
    pub slots: BTreeMap<usize, (K, Content)>,
}

impl<K: TestKey> Default for ModelRunner<K> {
    fn default() -> Self {
        Self::new()
    }
}

impl<K: TestKey> ModelRunner<K> {
    pub fn new() -> Self {
        ModelRunner { model: Model::new(), slots: BTreeMap::new() }
    }
    pub fn step(&mut self, op: &Op<K>) -> Outcome {
        match op {
            Op::Put { key, content, .. } => {
                self.model.put(key.clone(), content.bytes());
                Outcome::Unit
            }
            Op::PutAbort { .. } | Op::TxWrite { .. } | Op::Checkpoint => Outcome::Unit,
            Op::TxBegin { slot, key, content } => {
                self.slots.insert(*slot, (key.clone(), *content));
                Outcome::Unit
            }
            Op::TxFinish { slot } => {
                if let Some((k, c)) = self.slots.remove(slot) {
                    self.model.put(k, c.bytes());
                }
                Outcome::Unit
            }
            Op::TxDrop { slot } => {
                self.slots.remove(slot);
                Outcome::Unit
            }
            Op::Remove { key } => Outcome::Bool(self.model.remove(key)),
            Op::RemoveRange { lo, hi } => Outcome::Count(self.model.remove_range(lo, hi)),
            Op::Reopen { .. } => {
                // open transactions die with the handle
                self.slots.clear();
                Outcome::Unit
            }
        }
    }
    /// Does this op append a record to the log (given the model state BEFORE it)?
    pub fn logs_record(&self, op: &Op<K>) -> bool {
        match op {
            Op::Put { .. } => true,
            Op::TxFinish { slot } => self.slots.contains_key(slot),
            Op::Remove { key } => self.model.map.contains_key(key),
            Op::RemoveRange { lo, hi } => {
                self.model.map.keys().any(|k| crate::ops::in_range(k, lo, hi))
            }
            _ => false,
        }
    }
}
