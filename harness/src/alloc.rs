//! Counting global allocator: per-thread live bytes and peak since a mark, plus the largest
//! single request. Used to bound what decoders and range reads allocate (C16, C17).

use std::alloc::{GlobalAlloc, Layout, System};
use std::cell::Cell;

pub struct Counting;

thread_local! {
    static LIVE: Cell<i64> = const { Cell::new(0) };
    static PEAK: Cell<i64> = const { Cell::new(0) };
    static MAX_REQ: Cell<usize> = const { Cell::new(0) };
    static ON: Cell<bool> = const { Cell::new(false) };
}

/// While measuring, a single request above this many bytes ends the process with exit code 77
/// and an `ALLOC-GUARD` line on stderr (a failed huge allocation would abort anyway; this makes
/// the cause and the input visible). 0 = off.
pub static REFUSE_ABOVE: std::sync::atomic::AtomicUsize = std::sync::atomic::AtomicUsize::new(0);
static mut CASE: [u8; 384] = [0; 384];
static mut CASE_LEN: usize = 0;

/// Describe the input being processed (single-threaded children only).
pub fn set_case(desc: &[u8]) {
    unsafe {
        let n = desc.len().min(384);
        let dst = &raw mut CASE;
        (&mut (*dst))[..n].copy_from_slice(&desc[..n]);
        CASE_LEN = n;
    }
}

fn guard(size: usize) {
    let limit = REFUSE_ABOVE.load(std::sync::atomic::Ordering::Relaxed);
    if limit == 0 || size <= limit {
        return;
    }
    let on = ON.try_with(|o| o.get()).unwrap_or(false);
    if !on {
        return;
    }
    unsafe {
        let mut buf = [0u8; 600];
        let head = b"ALLOC-GUARD request=";
        let mut n = 0;
        buf[..head.len()].copy_from_slice(head);
        n += head.len();
        let mut digits = [0u8; 24];
        let mut d = 0;
        let mut v = size;
        loop {
            digits[d] = b'0' + (v % 10) as u8;
            d += 1;
            v /= 10;
            if v == 0 {
                break;
            }
        }
        while d > 0 {
            d -= 1;
            buf[n] = digits[d];
            n += 1;
        }
        let mid = b" case=";
        buf[n..n + mid.len()].copy_from_slice(mid);
        n += mid.len();
        let src = &raw const CASE;
        let cl = CASE_LEN.min(384);
        for i in 0..cl {
            let b = (&(*src))[i];
            let hx = b"0123456789abcdef";
            if n + 2 < 598 {
                buf[n] = hx[(b >> 4) as usize];
                buf[n + 1] = hx[(b & 15) as usize];
                n += 2;
            }
        }
        buf[n] = b'\n';
        n += 1;
        libc::write(2, buf.as_ptr().cast(), n);
        libc::_exit(77);
    }
}

unsafe impl GlobalAlloc for Counting {
    unsafe fn alloc(&self, l: Layout) -> *mut u8 {
        guard(l.size());
        let p = unsafe { System.alloc(l) };
        if !p.is_null() {
            note(l.size() as i64, l.size());
        }
        p
    }
    unsafe fn dealloc(&self, p: *mut u8, l: Layout) {
        unsafe { System.dealloc(p, l) };
        note(-(l.size() as i64), 0);
    }
    unsafe fn alloc_zeroed(&self, l: Layout) -> *mut u8 {
        guard(l.size());
        let p = unsafe { System.alloc_zeroed(l) };
        if !p.is_null() {
            note(l.size() as i64, l.size());
        }
        p
    }
    unsafe fn realloc(&self, p: *mut u8, l: Layout, new: usize) -> *mut u8 {
        guard(new);
        let q = unsafe { System.realloc(p, l, new) };
        if !q.is_null() {
            note(new as i64 - l.size() as i64, new);
        }
        q
    }
}

fn note(delta: i64, req: usize) {
    // try_with: the allocator may be called during thread teardown
    let _ = ON.try_with(|on| {
        if on.get() {
            let _ = LIVE.try_with(|live| {
                let v = live.get() + delta;
                live.set(v);
                let _ = PEAK.try_with(|p| {
                    if v > p.get() {
                        p.set(v);
                    }
                });
            });
            let _ = MAX_REQ.try_with(|m| {
                if req > m.get() {
                    m.set(req);
                }
            });
        }
    });
}

#[derive(Clone, Copy, Debug)]
pub struct Measured {
    /// peak growth of this thread's live heap bytes during the closure
    pub peak: u64,
    /// largest single allocation request
    pub max_request: u64,
}

/// Measure what `f` allocates on the current thread.
pub fn measure<T>(f: impl FnOnce() -> T) -> (T, Measured) {
    LIVE.set(0);
    PEAK.set(0);
    MAX_REQ.set(0);
    ON.set(true);
    let r = f();
    ON.set(false);
    let m = Measured { peak: PEAK.get().max(0) as u64, max_request: MAX_REQ.get() as u64 };
    (r, m)
}
