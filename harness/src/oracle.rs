//! Oracles over a live handle and over the directory, all judged against the reference model.
//! Every finding names the properties whose statement it contradicts.

use std::collections::{BTreeMap, BTreeSet};
use std::io::Read;
use std::ops::Bound;
use std::path::Path;

use cassadilia::{BlobHash, Cas};

use crate::disk;
use crate::json::{J, hex};
use crate::keys::TestKey;
use crate::model::{Hash32, Model, b3, rel_path_of};
use crate::ops::{in_range, range_is_invalid};
use crate::report::Finding;
use crate::rng::Rng;

fn short(b: &[u8]) -> String {
    if b.len() <= 24 {
        format!("{}B[{}]", b.len(), hex(b))
    } else {
        format!("{}B[{}..] b3={}", b.len(), hex(&b[..16]), &hex(&b3(b))[..16])
    }
}

/// Expected result of get_range per the documented contract and C17.
pub enum RangeExpect {
    Bytes(Vec<u8>),
    Error,
}

pub fn range_expect(content: &[u8], start: u64, end: u64) -> RangeExpect {
    let l = content.len() as u64;
    if start >= l {
        return RangeExpect::Bytes(Vec::new());
    }
    if start > end {
        return RangeExpect::Error;
    }
    let e = end.min(l);
    RangeExpect::Bytes(content[start as usize..e as usize].to_vec())
}

pub fn check_range<K: TestKey>(
    cas: &Cas<K>,
    key: &K,
    content: &[u8],
    start: u64,
    end: u64,
    out: &mut Vec<Finding>,
) {
    let got = cas.get_range(key, start, end);
    match (range_expect(content, start, end), got) {
        (RangeExpect::Bytes(want), Ok(Some(b))) => {
            if b.as_ref() != want.as_slice() {
                out.push(Finding::new(
                    &["C17", "C01"],
                    "get_range returned wrong bytes",
                    "get_range",
                    format!(
                        "key {key:?} len {} range [{start},{end}): want {} got {}",
                        content.len(),
                        short(&want),
                        short(&b)
                    ),
                ));
            }
        }
        (RangeExpect::Error, Err(_)) => {}
        (RangeExpect::Error, Ok(r)) => out.push(Finding::new(
            &["C17"],
            "get_range accepted start > end",
            "get_range",
            format!(
                "key {key:?} len {} range [{start},{end}) returned Ok({:?})",
                content.len(),
                r.map(|b| b.len())
            ),
        )),
        (RangeExpect::Bytes(_), Ok(None)) => out.push(Finding::new(
            &["C17", "C01"],
            "get_range says absent for a present key",
            "get_range",
            format!("key {key:?} range [{start},{end})"),
        )),
        (RangeExpect::Bytes(_), Err(e)) => out.push(Finding::new(
            &["C17", "C01"],
            "get_range failed on a valid request",
            "get_range",
            format!(
                "key {key:?} len {} range [{start},{end}): {}",
                content.len(),
                crate::session::err_chain(&e)
            ),
        )),
    }
}

/// All reads for all probe keys, whole-index iteration, ranges, refcounts, statistics.
pub fn check_reads<K: TestKey>(
    cas: &Cas<K>,
    model: &Model<K>,
    probes: &[K],
    rng: &mut Rng,
    out: &mut Vec<Finding>,
) -> u64 {
    let mut checks = 0u64;
    for k in probes {
        let want = model.map.get(k);
        // get
        checks += 1;
        match (cas.get(k), want) {
            (Ok(None), None) => {}
            (Ok(Some(b)), Some(w)) => {
                if b.as_ref() != w.as_slice() {
                    out.push(Finding::new(
                        &["C01"],
                        "get returned wrong bytes",
                        "get",
                        format!("key {k:?}: want {} got {}", short(w), short(&b)),
                    ));
                }
            }
            (Ok(Some(b)), None) => out.push(Finding::new(
                &["C01"],
                "get returned a value for an absent key",
                "get",
                format!("key {k:?}: got {}", short(&b)),
            )),
            (Ok(None), Some(w)) => out.push(Finding::new(
                &["C01"],
                "get says absent for a present key",
                "get",
                format!("key {k:?}: want {}", short(w)),
            )),
            (Err(e), _) => out.push(Finding::new(
                &["C01"],
                "get failed",
                "get",
                format!("key {k:?}: {}", crate::session::err_chain(&e)),
            )),
        }
        // get_size
        checks += 1;
        match (cas.get_size(k), want) {
            (Ok(None), None) => {}
            (Ok(Some(s)), Some(w)) if s == w.len() as u64 => {}
            (r, _) => out.push(Finding::new(
                &["C01", "C12", "C17"],
                "get_size wrong",
                "get_size",
                format!("key {k:?}: want {:?} got {:?}", want.map(|w| w.len()), r.ok()),
            )),
        }
        // get_reader
        checks += 1;
        match (cas.get_reader(k), want) {
            (Ok(None), None) => {}
            (Ok(Some(mut r)), Some(w)) => {
                let mut buf = Vec::new();
                if let Err(e) = r.read_to_end(&mut buf) {
                    out.push(Finding::new(
                        &["C01", "C17"],
                        "get_reader stream failed",
                        "get_reader",
                        format!("key {k:?}: {e}"),
                    ));
                } else if buf != *w {
                    out.push(Finding::new(
                        &["C01", "C17"],
                        "get_reader streamed wrong bytes",
                        "get_reader",
                        format!("key {k:?}: want {} got {}", short(w), short(&buf)),
                    ));
                }
            }
            (r, _) => out.push(Finding::new(
                &["C01", "C17"],
                "get_reader presence wrong",
                "get_reader",
                format!(
                    "key {k:?}: want present={} got {:?}",
                    want.is_some(),
                    r.map(|o| o.is_some()).map_err(|e| e.to_string())
                ),
            )),
        }
        // two live readers on one blob (the same key, or another key holding the same content),
        // consumed alternately: each streams all L bytes, whatever the other one does
        if let Some(w) = want
            && !w.is_empty()
        {
            checks += 1;
            let twin = probes.iter().find(|k2| *k2 != k && model.map.get(*k2) == Some(w)).unwrap_or(k);
            if let (Ok(Some(mut r1)), Ok(Some(mut r2))) = (cas.get_reader(k), cas.get_reader(twin)) {
                let cut = (w.len() / 2).max(1).min(w.len());
                let mut a = vec![0u8; cut];
                let mut b = Vec::new();
                let ok = r1.read_exact(&mut a).is_ok() && r2.read_to_end(&mut b).is_ok() && r1.read_to_end(&mut a).is_ok();
                if !ok || a != *w || b != *w {
                    out.push(Finding::new(
                        &["C17", "C01"],
                        "two readers on one blob, read alternately, did not both stream the whole content",
                        "get_reader",
                        format!(
                            "keys {k:?} / {twin:?} (len {}): first reader (read {} bytes, paused, resumed) got {} bytes, second got {} bytes{}",
                            w.len(),
                            cut,
                            a.len(),
                            b.len(),
                            if ok { "" } else { " (a read failed)" }
                        ),
                    ));
                }
            }
        }
        // get_range: boundary + random
        if let Some(w) = want {
            let l = w.len() as u64;
            let mut ranges: Vec<(u64, u64)> = vec![
                (0, l),
                (0, u64::MAX),
                (l, l),
                (l.saturating_sub(1), l + 1),
                (l + 1, 0),
                (0, 0),
            ];
            for _ in 0..3 {
                let a = rng.below(l + 3);
                let b = rng.below(l + 3);
                ranges.push((a, b));
            }
            if l > 1 {
                ranges.push((1, 0)); // start > end, start < L: must be rejected
            }
            for (s, e) in ranges {
                checks += 1;
                check_range(cas, k, w, s, e, out);
            }
        } else {
            checks += 1;
            match cas.get_range(k, 0, 10) {
                Ok(None) => {}
                r => out.push(Finding::new(
                    &["C01"],
                    "get_range on absent key",
                    "get_range",
                    format!("key {k:?}: got {:?}", r.map(|o| o.map(|b| b.len())).map_err(|e| e.to_string())),
                )),
            }
        }
    }

    // index view
    let g = cas.read_index_state();
    checks += 1;
    let got_keys: Vec<K> = g.iter().map(|(k, _)| k.clone()).collect();
    let want_keys: Vec<K> = model.map.keys().cloned().collect();
    if got_keys != want_keys {
        out.push(Finding::new(
            &["C01"],
            "key iteration differs from the ordered map",
            "iter",
            format!("want {want_keys:?} got {got_keys:?}"),
        ));
    }
    if g.len() != model.map.len() || g.is_empty() != model.map.is_empty() {
        out.push(Finding::new(
            &["C01"],
            "len/is_empty wrong",
            "len",
            format!("want {} got {}", model.map.len(), g.len()),
        ));
    }
    let snap = g.keys_snapshot();
    if snap.keys().cloned().collect::<Vec<K>>() != want_keys {
        out.push(Finding::new(
            &["C01"],
            "keys_snapshot differs from the ordered map",
            "keys_snapshot",
            String::new(),
        ));
    }
    for k in probes {
        checks += 1;
        let want = model.map.get(k);
        if g.contains_key(k) != want.is_some() {
            out.push(Finding::new(
                &["C01"],
                "contains_key wrong",
                "contains_key",
                format!("key {k:?}"),
            ));
        }
        match (g.get_item(k), want) {
            (None, None) => {}
            (Some(item), Some(w)) => {
                if item.blob_hash.0 != b3(w) {
                    out.push(Finding::new(
                        &["C18", "C01"],
                        "recorded hash is not BLAKE3 of the content",
                        "get_item",
                        format!("key {k:?}: want {} got {}", hex(&b3(w)), item.blob_hash),
                    ));
                }
                if item.blob_size != w.len() as u64 {
                    out.push(Finding::new(
                        &["C18", "C12"],
                        "recorded size is not the content length",
                        "get_item",
                        format!("key {k:?}: want {} got {}", w.len(), item.blob_size),
                    ));
                }
            }
            (a, b) => out.push(Finding::new(
                &["C01"],
                "get_item presence wrong",
                "get_item",
                format!("key {k:?}: got {:?} want present={}", a.is_some(), b.is_some()),
            )),
        }
    }
    // range iteration: all five shapes with bounds drawn from the probes
    if !probes.is_empty() {
        for _ in 0..6 {
            let a = rng.pick(probes).clone();
            let b = rng.pick(probes).clone();
            let (a, b) = if a <= b { (a, b) } else { (b, a) };
            let lo = match rng.below(3) {
                0 => Bound::Unbounded,
                1 => Bound::Included(a),
                _ => Bound::Excluded(a),
            };
            let hi = match rng.below(3) {
                0 => Bound::Unbounded,
                1 => Bound::Included(b),
                _ => Bound::Excluded(b),
            };
            if range_is_invalid(&lo, &hi) {
                continue;
            }
            checks += 1;
            let got: Vec<K> = g.range((lo.clone(), hi.clone())).map(|(k, _)| k.clone()).collect();
            let want: Vec<K> =
                model.map.keys().filter(|k| in_range(*k, &lo, &hi)).cloned().collect();
            if got != want {
                out.push(Finding::new(
                    &["C01"],
                    "range iteration differs from the ordered map",
                    "range",
                    format!("bounds ({lo:?},{hi:?}): want {want:?} got {got:?}"),
                ));
            }
        }
    }
    // refcounts and statistics
    checks += 1;
    let blobs = model.blobs();
    let mut got_blobs: BTreeMap<Hash32, u32> = BTreeMap::new();
    for (h, c) in g.known_blobs() {
        got_blobs.insert(h.0, *c);
    }
    let want_blobs: BTreeMap<Hash32, u32> = blobs.iter().map(|(h, b)| (*h, b.refs)).collect();
    if got_blobs != want_blobs {
        let show = |m: &BTreeMap<Hash32, u32>| {
            m.iter().map(|(h, c)| format!("{}:{c}", &hex(h)[..12])).collect::<Vec<_>>().join(",")
        };
        out.push(Finding::new(
            &["C12"],
            "known blobs / reference counts differ from the model",
            "known_blobs",
            format!("want {{{}}} got {{{}}}", show(&want_blobs), show(&got_blobs)),
        ));
    }
    for h in want_blobs.keys() {
        if !g.contains_blob_hash(&BlobHash(*h)) {
            out.push(Finding::new(
                &["C12"],
                "contains_blob_hash false for a referenced blob",
                "contains_blob_hash",
                hex(h),
            ));
        }
    }
    let st = g.stats();
    if st.cas.unique_blobs != model.unique_blobs() || st.cas.total_bytes != model.total_bytes() {
        out.push(Finding::new(
            &["C12"],
            "statistics differ from the model",
            "stats",
            format!(
                "want unique={} bytes={} got unique={} bytes={}",
                model.unique_blobs(),
                model.total_bytes(),
                st.cas.unique_blobs,
                st.cas.total_bytes
            ),
        ));
    }
    drop(g);
    let st2 = cas.stats();
    if st2 != st {
        out.push(Finding::new(&["C12"], "stats() and guard.stats() disagree", "stats", String::new()));
    }
    checks
}

/// C07 (+C06, C18 placement): `cas/` holds exactly one file per distinct model value at the
/// path derived from its hash, each with exactly its bytes; `staging/` is empty.
/// Only call at quiescence with no open transaction and no earlier failure.
pub fn check_cas_exact<K: TestKey>(root: &Path, model: &Model<K>, out: &mut Vec<Finding>) {
    let want: BTreeSet<String> = model.blobs().keys().map(rel_path_of).collect();
    let got: BTreeSet<String> = crate::fsx::files_rec(&root.join("cas")).into_iter().collect();
    if want != got {
        let extra: Vec<&String> = got.difference(&want).collect();
        let missing: Vec<&String> = want.difference(&got).collect();
        let mut props: Vec<&'static str> = vec!["C07"];
        if !missing.is_empty() {
            props.push("C18");
        }
        out.push(Finding::new(
            &props,
            if missing.is_empty() {
                "cas/ holds files no key references"
            } else {
                "cas/ lacks a file for a referenced content"
            },
            "cas listing at quiescence",
            format!("extra {extra:?} missing {missing:?}"),
        ));
    }
    check_cas_files_intact(root, out);
    let staging = crate::fsx::files_rec(&root.join("staging"));
    if !staging.is_empty() {
        out.push(Finding::new(
            &["C07", "C13"],
            "staging/ not empty at quiescence",
            "staging listing",
            format!("{staging:?}"),
        ));
    }
}

/// C06: every file under `cas/` holds exactly the bytes whose hash its path spells.
/// Files whose path is not a canonical blob path are skipped (not blobs).
pub fn check_cas_files_intact(root: &Path, out: &mut Vec<Finding>) -> usize {
    let cas = root.join("cas");
    let mut n = 0;
    for rel in crate::fsx::files_rec(&cas) {
        let Some(h) = hash_of_rel_path(&rel) else { continue };
        let Ok(bytes) = std::fs::read(cas.join(&rel)) else { continue };
        n += 1;
        if b3(&bytes) != h {
            out.push(Finding::new(
                &["C06"],
                "a file under cas/ does not hold the bytes its path names",
                "cas file content",
                format!("{rel}: {} bytes, b3={}", bytes.len(), hex(&b3(&bytes))),
            ));
        }
    }
    n
}

pub fn hash_of_rel_path(rel: &str) -> Option<Hash32> {
    let parts: Vec<&str> = rel.split('/').collect();
    if parts.len() != 3 || parts[0].len() != 2 || parts[1].len() != 2 || parts[2].len() != 60 {
        return None;
    }
    let joined = format!("{}{}{}", parts[0], parts[1], parts[2]);
    if joined.bytes().any(|c| !matches!(c, b'0'..=b'9' | b'a'..=b'f')) {
        return None;
    }
    crate::json::unhex(&joined)?.try_into().ok()
}

/// Tracks what the log has ever contained for one database, across restarts (C20).
#[derive(Clone, Debug, Default)]
pub struct LogTracker {
    /// version -> payload hash, as first seen
    pub seen: BTreeMap<u64, Hash32>,
    /// versions of acknowledged operations
    pub acked: BTreeSet<u64>,
    pub max_seen: u64,
}

/// C20 at a quiescent instant: structure, decoded state = model, acked versions still present,
/// no version reuse. `new_record_expected`: Some(false) if the step just taken was an abandoned
/// transaction (no record may appear, C13); otherwise new records count as acknowledged.
pub fn check_format<K: TestKey>(
    root: &Path,
    n_ops: u64,
    model: &Model<K>,
    tracker: &mut LogTracker,
    new_record_expected: Option<bool>,
    out: &mut Vec<Finding>,
) {
    let st = match disk::decode_db(root, n_ops) {
        Ok(s) => s,
        Err(e) => {
            out.push(Finding::new(&["C20"], "on-disk files are malformed", "format", e));
            return;
        }
    };
    // decoded state equals the model
    let want: BTreeMap<Vec<u8>, (Hash32, u64)> =
        model.map.iter().map(|(k, v)| (k.kb(), (b3(v), v.len() as u64))).collect();
    if st.map != want {
        out.push(Finding::new(
            &["C20"],
            "snapshot plus log decode to a state other than the acknowledged history",
            "decode",
            format!(
                "decoded {} keys, model {} keys; snapshot v{}, max v{}",
                st.map.len(),
                want.len(),
                st.snapshot_version,
                st.max_version
            ),
        ));
    }
    // versions: never reused, new ones exceed everything seen before
    let mut new_versions = Vec::new();
    for (_, v, ph) in &st.versions {
        match tracker.seen.get(v) {
            Some(old) if old != ph => out.push(Finding::new(
                &["C20"],
                "a record version was reused for a different operation",
                "version reuse",
                format!("version {v}"),
            )),
            Some(_) => {}
            None => {
                if *v <= tracker.max_seen {
                    out.push(Finding::new(
                        &["C20"],
                        "a new record carries a version not above every earlier one",
                        "version regression",
                        format!("new version {v}, highest seen before {}", tracker.max_seen),
                    ));
                }
                new_versions.push(*v);
                tracker.seen.insert(*v, *ph);
            }
        }
    }
    for v in &new_versions {
        tracker.max_seen = tracker.max_seen.max(*v);
    }
    match new_record_expected {
        Some(true) => {
            tracker.acked.extend(new_versions.iter().copied());
        }
        Some(false) => {
            if !new_versions.is_empty() {
                out.push(Finding::new(
                    &["C13"],
                    "a log record appeared for an abandoned transaction",
                    "append",
                    format!("new versions {new_versions:?}"),
                ));
            }
        }
        None => {
            tracker.acked.extend(new_versions.iter().copied());
        }
    }
    let missing = st.missing_acked(&tracker.acked);
    if !missing.is_empty() {
        out.push(Finding::new(
            &["C20"],
            "an acknowledged version above the snapshot's is no longer in any segment",
            "pruning",
            format!("missing {missing:?} snapshot v{}", st.snapshot_version),
        ));
    }
}

/// Everything observable through the API, for before/after comparisons (C02, C03).
#[derive(Clone, Debug, PartialEq, Eq, Default)]
pub struct Observable {
    /// key bytes -> (hash, size, b3 of bytes returned by get or error text)
    pub keys: BTreeMap<Vec<u8>, (Hash32, u64, Result<Hash32, String>)>,
    pub key_order: Vec<Vec<u8>>,
    pub blobs: BTreeMap<Hash32, u32>,
    pub unique_blobs: u64,
    pub total_bytes: u64,
    pub index_size: u64,
}

pub fn observe<K: TestKey>(cas: &Cas<K>) -> Observable {
    let mut o = Observable::default();
    let items: Vec<(K, cassadilia::IndexStateItem)> = {
        let g = cas.read_index_state();
        for (h, c) in g.known_blobs() {
            o.blobs.insert(h.0, *c);
        }
        let st = g.stats();
        o.unique_blobs = st.cas.unique_blobs;
        o.total_bytes = st.cas.total_bytes;
        o.index_size = st.index.serialized_size_bytes;
        g.iter().map(|(k, i)| (k.clone(), *i)).collect()
    };
    for (k, item) in items {
        let got = match cas.get(&k) {
            Ok(Some(b)) => Ok(b3(&b)),
            Ok(None) => Err("absent".to_string()),
            Err(e) => Err(crate::session::err_chain(&e)),
        };
        o.key_order.push(k.kb());
        o.keys.insert(k.kb(), (item.blob_hash.0, item.blob_size, got));
    }
    o
}

impl Observable {
    /// The observable a model predicts (index_size is not predicted: set to `index_size`).
    pub fn of_model<K: TestKey>(model: &Model<K>, index_size: u64) -> Observable {
        let mut o = Observable { index_size, ..Default::default() };
        for (k, v) in &model.map {
            let h = b3(v);
            o.key_order.push(k.kb());
            o.keys.insert(k.kb(), (h, v.len() as u64, Ok(h)));
        }
        for (h, b) in model.blobs() {
            o.blobs.insert(h, b.refs);
        }
        o.unique_blobs = model.unique_blobs();
        o.total_bytes = model.total_bytes();
        o
    }

    pub fn diff(&self, other: &Observable, ignore_index_size: bool) -> Vec<String> {
        let mut d = Vec::new();
        if self.key_order != other.key_order {
            d.push(format!(
                "keys differ: {:?} vs {:?}",
                self.key_order.iter().map(|k| hex(k)).collect::<Vec<_>>(),
                other.key_order.iter().map(|k| hex(k)).collect::<Vec<_>>()
            ));
        }
        for (k, v) in &self.keys {
            if let Some(w) = other.keys.get(k)
                && v != w
            {
                d.push(format!(
                    "key {}: ({}, {}, {:?}) vs ({}, {}, {:?})",
                    hex(k),
                    &hex(&v.0)[..12],
                    v.1,
                    v.2.as_ref().map(|h| hex(h)[..12].to_string()),
                    &hex(&w.0)[..12],
                    w.1,
                    w.2.as_ref().map(|h| hex(h)[..12].to_string())
                ));
            }
        }
        if self.blobs != other.blobs {
            d.push("reference counts differ".into());
        }
        if self.unique_blobs != other.unique_blobs || self.total_bytes != other.total_bytes {
            d.push(format!(
                "stats differ: unique {} vs {}, bytes {} vs {}",
                self.unique_blobs, other.unique_blobs, self.total_bytes, other.total_bytes
            ));
        }
        if !ignore_index_size && self.index_size != other.index_size {
            d.push(format!("index size {} vs {}", self.index_size, other.index_size));
        }
        d
    }

    pub fn to_json(&self) -> J {
        let keys = self
            .key_order
            .iter()
            .map(|k| {
                let (h, s, g) = &self.keys[k];
                J::obj()
                    .set("k", J::s(hex(k)))
                    .set("h", J::s(hex(h)))
                    .set("s", J::u(*s))
                    .set(
                        "g",
                        match g {
                            Ok(h) => J::s(hex(h)),
                            Err(e) => J::s(format!("ERR:{e}")),
                        },
                    )
            })
            .collect();
        J::obj()
            .set("keys", J::Arr(keys))
            .set(
                "blobs",
                J::Obj(self.blobs.iter().map(|(h, c)| (hex(h), J::u(u64::from(*c)))).collect()),
            )
            .set("unique_blobs", J::u(self.unique_blobs))
            .set("total_bytes", J::u(self.total_bytes))
            .set("index_size", J::u(self.index_size))
    }

    pub fn from_json(j: &J) -> Option<Observable> {
        let mut o = Observable::default();
        for e in j.get("keys")?.as_arr()? {
            let k = crate::json::unhex(e.get("k")?.as_str()?)?;
            let h: Hash32 = crate::json::unhex(e.get("h")?.as_str()?)?.try_into().ok()?;
            let s = e.get("s")?.as_i64()? as u64;
            let g = e.get("g")?.as_str()?;
            let g = if let Some(err) = g.strip_prefix("ERR:") {
                Err(err.to_string())
            } else {
                Ok(crate::json::unhex(g)?.try_into().ok()?)
            };
            o.key_order.push(k.clone());
            o.keys.insert(k, (h, s, g));
        }
        if let J::Obj(items) = j.get("blobs")? {
            for (h, c) in items {
                o.blobs.insert(crate::json::unhex(h)?.try_into().ok()?, c.as_i64()? as u32);
            }
        }
        o.unique_blobs = j.get("unique_blobs")?.as_i64()? as u64;
        o.total_bytes = j.get("total_bytes")?.as_i64()? as u64;
        o.index_size = j.get("index_size")?.as_i64()? as u64;
        Some(o)
    }
}
