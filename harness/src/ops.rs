//! Operations of a (sequential) history, their deterministic contents and a text encoding
//! used for child-process scripts and replay files. Keys travel as hex of their key bytes.

use std::ops::Bound;

use crate::json::{hex, unhex};
use crate::keys::TestKey;

/// Deterministic content: 8-byte blocks `[tag: u32 LE][block index: u32 LE]`, cut to `len`.
/// Same (tag, len) = same bytes; for len >= 8 different tags give different bytes and every
/// aligned block names its writer, so a mixed or partial read is detectable.
#[derive(Clone, Copy, Debug, PartialEq, Eq, Hash, PartialOrd, Ord)]
pub struct Content {
    pub tag: u32,
    pub len: usize,
}

impl Content {
    pub fn new(tag: u32, len: usize) -> Self {
        Content { tag, len }
    }
    pub fn bytes(&self) -> Vec<u8> {
        let mut v = Vec::with_capacity(self.len + 8);
        let mut i: u32 = 0;
        while v.len() < self.len {
            v.extend_from_slice(&self.tag.to_le_bytes());
            v.extend_from_slice(&i.to_le_bytes());
            i = i.wrapping_add(1);
        }
        v.truncate(self.len);
        v
    }
    pub fn enc(&self) -> String {
        format!("{}:{}", self.tag, self.len)
    }
    pub fn dec(s: &str) -> Option<Self> {
        let (a, b) = s.split_once(':')?;
        Some(Content { tag: a.parse().ok()?, len: b.parse().ok()? })
    }
}

/// Which writer produced `bytes`, if it is exactly one `Content` (len >= 8 and consistent).
pub fn identify(bytes: &[u8]) -> Option<Content> {
    if bytes.len() < 8 {
        return None;
    }
    let tag = u32::from_le_bytes(bytes[0..4].try_into().unwrap());
    let c = Content { tag, len: bytes.len() };
    if c.bytes() == bytes { Some(c) } else { None }
}

#[derive(Clone, Debug, PartialEq)]
pub enum Op<K> {
    /// begin + write in `chunks` + finish. `chunks` are the write sizes (may contain 0s);
    /// a remainder is written as a final chunk.
    Put { key: K, content: Content, chunks: Vec<usize> },
    /// begin + writes, then drop without finish.
    PutAbort { key: K, content: Content, chunks: Vec<usize> },
    /// interleaved transactions (slot-addressed)
    TxBegin { slot: usize, key: K, content: Content },
    TxWrite { slot: usize, n: usize },
    TxFinish { slot: usize },
    TxDrop { slot: usize },
    Remove { key: K },
    RemoveRange { lo: Bound<K>, hi: Bound<K> },
    Checkpoint,
    /// drop the handle and open again (same directory, same segment size)
    Reopen { flip_sync: bool, pre_create: bool },
}

fn enc_bound<K: TestKey>(b: &Bound<K>) -> String {
    match b {
        Bound::Unbounded => "u".into(),
        Bound::Included(k) => format!("i{}", hex(&k.kb())),
        Bound::Excluded(k) => format!("e{}", hex(&k.kb())),
    }
}

fn dec_bound<K: TestKey>(s: &str) -> Option<Bound<K>> {
    let (t, rest) = s.split_at(1);
    match t {
        "u" => Some(Bound::Unbounded),
        "i" => Some(Bound::Included(K::from_kb(&unhex(rest)?)?)),
        "e" => Some(Bound::Excluded(K::from_kb(&unhex(rest)?)?)),
        _ => None,
    }
}

fn enc_chunks(c: &[usize]) -> String {
    if c.is_empty() {
        "-".into()
    } else {
        c.iter().map(|x| x.to_string()).collect::<Vec<_>>().join(",")
    }
}

fn dec_chunks(s: &str) -> Option<Vec<usize>> {
    if s == "-" {
        return Some(vec![]);
    }
    s.split(',').map(|x| x.parse().ok()).collect()
}

impl<K: TestKey> Op<K> {
    pub fn enc(&self) -> String {
        match self {
            Op::Put { key, content, chunks } => {
                format!("put {} {} {}", khex(key), content.enc(), enc_chunks(chunks))
            }
            Op::PutAbort { key, content, chunks } => {
                format!("putabort {} {} {}", khex(key), content.enc(), enc_chunks(chunks))
            }
            Op::TxBegin { slot, key, content } => {
                format!("txbegin {slot} {} {}", khex(key), content.enc())
            }
            Op::TxWrite { slot, n } => format!("txwrite {slot} {n}"),
            Op::TxFinish { slot } => format!("txfinish {slot}"),
            Op::TxDrop { slot } => format!("txdrop {slot}"),
            Op::Remove { key } => format!("remove {}", khex(key)),
            Op::RemoveRange { lo, hi } => {
                format!("removerange {} {}", enc_bound(lo), enc_bound(hi))
            }
            Op::Checkpoint => "checkpoint".into(),
            Op::Reopen { flip_sync, pre_create } => {
                format!("reopen {} {}", u8::from(*flip_sync), u8::from(*pre_create))
            }
        }
    }

    pub fn dec(line: &str) -> Option<Self> {
        let t: Vec<&str> = line.split_whitespace().collect();
        match *t.first()? {
            "put" => Some(Op::Put {
                key: kdec(t.get(1)?)?,
                content: Content::dec(t.get(2)?)?,
                chunks: dec_chunks(t.get(3)?)?,
            }),
            "putabort" => Some(Op::PutAbort {
                key: kdec(t.get(1)?)?,
                content: Content::dec(t.get(2)?)?,
                chunks: dec_chunks(t.get(3)?)?,
            }),
            "txbegin" => Some(Op::TxBegin {
                slot: t.get(1)?.parse().ok()?,
                key: kdec(t.get(2)?)?,
                content: Content::dec(t.get(3)?)?,
            }),
            "txwrite" => {
                Some(Op::TxWrite { slot: t.get(1)?.parse().ok()?, n: t.get(2)?.parse().ok()? })
            }
            "txfinish" => Some(Op::TxFinish { slot: t.get(1)?.parse().ok()? }),
            "txdrop" => Some(Op::TxDrop { slot: t.get(1)?.parse().ok()? }),
            "remove" => Some(Op::Remove { key: kdec(t.get(1)?)? }),
            "removerange" => {
                Some(Op::RemoveRange { lo: dec_bound(t.get(1)?)?, hi: dec_bound(t.get(2)?)? })
            }
            "checkpoint" => Some(Op::Checkpoint),
            "reopen" => Some(Op::Reopen {
                flip_sync: *t.get(1)? == "1",
                pre_create: *t.get(2)? == "1",
            }),
            _ => None,
        }
    }

    /// Keys whose value the op may change (for per-key uncertainty under faults).
    pub fn is_mutation(&self) -> bool {
        matches!(
            self,
            Op::Put { .. } | Op::TxFinish { .. } | Op::Remove { .. } | Op::RemoveRange { .. }
        )
    }
}

/// `"-"` stands for the empty key (an empty hex string would vanish in whitespace splitting).
fn khex<K: TestKey>(k: &K) -> String {
    let h = hex(&k.kb());
    if h.is_empty() { "-".into() } else { h }
}

fn kdec<K: TestKey>(s: &str) -> Option<K> {
    if s == "-" {
        return K::from_kb(&[]);
    }
    K::from_kb(&unhex(s)?)
}

pub fn enc_script<K: TestKey>(ops: &[Op<K>]) -> String {
    let mut s = String::new();
    for op in ops {
        s.push_str(&op.enc());
        s.push('\n');
    }
    s
}

pub fn dec_script<K: TestKey>(text: &str) -> Result<Vec<Op<K>>, String> {
    let mut v = Vec::new();
    for (i, line) in text.lines().enumerate() {
        let line = line.trim();
        if line.is_empty() || line.starts_with('#') {
            continue;
        }
        v.push(Op::dec(line).ok_or_else(|| format!("bad op at line {}: {line}", i + 1))?);
    }
    Ok(v)
}

/// Does `k` lie in (lo, hi)? (BTreeMap::range panics on inverted bounds; callers generate
/// only valid ranges, this predicate is what the model uses.)
pub fn in_range<K: Ord>(k: &K, lo: &Bound<K>, hi: &Bound<K>) -> bool {
    let lo_ok = match lo {
        Bound::Unbounded => true,
        Bound::Included(b) => k >= b,
        Bound::Excluded(b) => k > b,
    };
    let hi_ok = match hi {
        Bound::Unbounded => true,
        Bound::Included(b) => k <= b,
        Bound::Excluded(b) => k < b,
    };
    lo_ok && hi_ok
}

/// True if `BTreeMap::range((lo, hi))` would panic (start > end, or equal with both excluded).
pub fn range_is_invalid<K: Ord>(lo: &Bound<K>, hi: &Bound<K>) -> bool {
    match (lo, hi) {
        (Bound::Included(a), Bound::Included(b)) => a > b,
        (Bound::Included(a), Bound::Excluded(b)) | (Bound::Excluded(a), Bound::Included(b)) => {
            a > b
        }
        (Bound::Excluded(a), Bound::Excluded(b)) => a >= b,
        _ => false,
    }
}
