//! Key types under test and their seeded pools.

use std::fmt::Debug;
use std::hash::Hash;

use cassadilia::KeyBytes;

use crate::rng::Rng;

pub trait TestKey:
    KeyBytes + Clone + Eq + Ord + Hash + Debug + Send + Sync + 'static
{
    const NAME: &'static str;
    /// Candidate keys: edge cases first, then random ones; at least `n` distinct values.
    fn candidates(rng: &mut Rng, n: usize) -> Vec<Self>;
    /// The i-th key of a wide, regular family (for records larger than I/O buffers).
    fn bulk(i: usize, width: usize) -> Self;

    fn kb(&self) -> Vec<u8> {
        self.to_key_bytes_owned()
    }
    fn from_kb(b: &[u8]) -> Option<Self> {
        Self::from_key_bytes(b)
    }
    /// `n` distinct keys, sorted set semantics not required.
    fn pool(rng: &mut Rng, n: usize) -> Vec<Self> {
        let mut c = Self::candidates(rng, n * 2 + 4);
        let mut out: Vec<Self> = Vec::new();
        // always keep the first edge key (empty / zero), shuffle the rest
        if !c.is_empty() {
            out.push(c.remove(0));
        }
        rng.shuffle(&mut c);
        for k in c {
            if out.len() >= n {
                break;
            }
            if !out.contains(&k) {
                out.push(k);
            }
        }
        out
    }
}

impl TestKey for String {
    const NAME: &'static str = "String";
    fn candidates(rng: &mut Rng, n: usize) -> Vec<Self> {
        let mut v: Vec<String> = vec![
            String::new(),
            "a".into(),
            "a\0".into(),
            "ab".into(),
            "b".into(),
            "key07".into(),
            "key1".into(),
            "key10".into(),
            "\u{e9}t\u{e9}".into(),
            "\u{10ffff}".into(),
            "z".repeat(300),
            "/../x".into(),
        ];
        while v.len() < n + 12 {
            let len = rng.range(1, 12) as usize;
            let s: String = (0..len).map(|_| (b'a' + rng.below(4) as u8) as char).collect();
            v.push(s);
        }
        v
    }
    fn bulk(i: usize, width: usize) -> Self {
        let mut s = format!("bulk{i:06}");
        while s.len() < width {
            s.push('x');
        }
        s
    }
}

impl TestKey for Vec<u8> {
    const NAME: &'static str = "Vec<u8>";
    fn candidates(rng: &mut Rng, n: usize) -> Vec<Self> {
        let mut v: Vec<Vec<u8>> = vec![
            vec![],
            vec![0],
            vec![0, 0],
            vec![1],
            vec![255],
            vec![255, 255],
            vec![1, 2, 3],
            vec![0x80],
            b"key".to_vec(),
            vec![7; 257],
        ];
        while v.len() < n + 10 {
            let len = rng.range(1, 9) as usize;
            v.push((0..len).map(|_| rng.below(3) as u8 * 127).collect());
        }
        v
    }
    fn bulk(i: usize, width: usize) -> Self {
        let mut s = format!("bulk{i:06}").into_bytes();
        while s.len() < width {
            s.push(b'y');
        }
        s
    }
}

impl TestKey for [u8; 4] {
    const NAME: &'static str = "[u8;4]";
    fn candidates(rng: &mut Rng, n: usize) -> Vec<Self> {
        let mut v: Vec<[u8; 4]> =
            vec![[0; 4], [255; 4], [0, 0, 0, 1], [1, 0, 0, 0], [0, 255, 0, 255], [127, 128, 0, 0]];
        while v.len() < n + 6 {
            let b = rng.bytes(4);
            v.push([b[0] & 3, b[1] & 1, b[2] & 1, b[3] & 3]);
        }
        v
    }
    fn bulk(i: usize, _width: usize) -> Self {
        (i as u32).to_be_bytes()
    }
}

macro_rules! int_key {
    ($t:ty, $name:literal) => {
        impl TestKey for $t {
            const NAME: &'static str = $name;
            fn candidates(rng: &mut Rng, n: usize) -> Vec<Self> {
                let mut v: Vec<$t> = vec![
                    0 as $t,
                    1 as $t,
                    <$t>::MIN,
                    <$t>::MAX,
                    (<$t>::MAX / 2) as $t,
                    (0 as $t).wrapping_sub(1),
                    2 as $t,
                    255u8 as $t,
                ];
                let mut guard = 0;
                while v.len() < n + 8 && guard < 10_000 {
                    guard += 1;
                    let x = rng.next_u64() as $t;
                    let y = if rng.chance(1, 2) { x } else { (rng.below(16) as $t) };
                    v.push(y);
                }
                v
            }
            fn bulk(i: usize, _width: usize) -> Self {
                i as $t
            }
        }
    };
}

int_key!(u8, "u8");
int_key!(i32, "i32");
int_key!(u64, "u64");
int_key!(i128, "i128");
int_key!(i8, "i8");
int_key!(u16, "u16");
int_key!(i16, "i16");
int_key!(u32, "u32");
int_key!(i64, "i64");
int_key!(u128, "u128");
