//! Independent reader of the documented on-disk formats. Shares no code with the crate.
//!
//! snapshot `index`:  [u64 version][u32 n]{[u32 klen][key][32B hash][u64 size]}*   (no trailing bytes)
//! segment `<id>_index.wal`: {[u64 version][32B blake3(payload)][u32 len][payload]}*
//!                           then optionally ONE all-zero 44-byte end marker, then nothing.
//! payload: tag 0 = Put [u32 klen][key][32B hash][u64 size]; tag 1 = Remove [u32 n]{[u32 klen][key]}*

use std::collections::BTreeMap;
use std::path::{Path, PathBuf};

use crate::model::Hash32;

pub const HEADER: usize = 8 + 32 + 4;

#[derive(Clone, Debug, PartialEq)]
pub struct Snapshot {
    pub version: u64,
    pub entries: Vec<(Vec<u8>, Hash32, u64)>,
}

#[derive(Clone, Debug, PartialEq)]
pub struct Record {
    pub version: u64,
    pub offset: usize,
    pub payload: Vec<u8>,
}

impl Record {
    pub fn end(&self) -> usize {
        self.offset + HEADER + self.payload.len()
    }
}

#[derive(Clone, Debug, PartialEq)]
pub struct Segment {
    pub id: u64,
    pub records: Vec<Record>,
    pub sentinel: bool,
    pub len: usize,
}

#[derive(Clone, Debug, PartialEq)]
pub enum DOp {
    Put { key: Vec<u8>, hash: Hash32, size: u64 },
    Remove { keys: Vec<Vec<u8>> },
}

struct Cur<'a> {
    b: &'a [u8],
    p: usize,
}

impl<'a> Cur<'a> {
    fn take(&mut self, n: usize, what: &str) -> Result<&'a [u8], String> {
        if self.b.len() - self.p < n {
            return Err(format!(
                "short read of {what}: need {n}, have {} at offset {}",
                self.b.len() - self.p,
                self.p
            ));
        }
        let s = &self.b[self.p..self.p + n];
        self.p += n;
        Ok(s)
    }
    fn u32(&mut self, what: &str) -> Result<u32, String> {
        Ok(u32::from_le_bytes(self.take(4, what)?.try_into().unwrap()))
    }
    fn u64(&mut self, what: &str) -> Result<u64, String> {
        Ok(u64::from_le_bytes(self.take(8, what)?.try_into().unwrap()))
    }
    fn h32(&mut self, what: &str) -> Result<Hash32, String> {
        Ok(self.take(32, what)?.try_into().unwrap())
    }
    fn rest(&self) -> usize {
        self.b.len() - self.p
    }
}

pub fn parse_snapshot(bytes: &[u8]) -> Result<Snapshot, String> {
    let mut c = Cur { b: bytes, p: 0 };
    let version = c.u64("snapshot version")?;
    let n = c.u32("snapshot count")?;
    let mut entries: Vec<(Vec<u8>, Hash32, u64)> = Vec::new();
    let mut seen: std::collections::BTreeSet<Vec<u8>> = std::collections::BTreeSet::new();
    for i in 0..n {
        let klen = c.u32("snapshot key length")? as usize;
        let key = c.take(klen, "snapshot key")?.to_vec();
        let hash = c.h32("snapshot hash")?;
        let size = c.u64("snapshot size")?;
        if !seen.insert(key.clone()) {
            return Err(format!("snapshot entry {i}: duplicate key"));
        }
        entries.push((key, hash, size));
    }
    if c.rest() != 0 {
        return Err(format!("snapshot has {} trailing bytes", c.rest()));
    }
    Ok(Snapshot { version, entries })
}

pub fn parse_op(payload: &[u8]) -> Result<DOp, String> {
    let mut c = Cur { b: payload, p: 0 };
    let tag = c.take(1, "op tag")?[0];
    let op = match tag {
        0 => {
            let klen = c.u32("put key length")? as usize;
            let key = c.take(klen, "put key")?.to_vec();
            let hash = c.h32("put hash")?;
            let size = c.u64("put size")?;
            DOp::Put { key, hash, size }
        }
        1 => {
            let n = c.u32("remove count")?;
            let mut keys = Vec::new();
            for _ in 0..n {
                let klen = c.u32("remove key length")? as usize;
                keys.push(c.take(klen, "remove key")?.to_vec());
            }
            DOp::Remove { keys }
        }
        t => return Err(format!("unknown op tag {t}")),
    };
    if c.rest() != 0 {
        return Err(format!("op payload has {} trailing bytes", c.rest()));
    }
    Ok(op)
}

/// Strict parse: every byte must belong to a complete, checksummed record or to the single
/// trailing end marker.
pub fn parse_segment(id: u64, bytes: &[u8]) -> Result<Segment, String> {
    let mut records = Vec::new();
    let mut p = 0usize;
    let mut sentinel = false;
    while p < bytes.len() {
        if bytes.len() - p < HEADER {
            return Err(format!(
                "segment {id}: {} stray bytes at offset {p} (incomplete header)",
                bytes.len() - p
            ));
        }
        let h = &bytes[p..p + HEADER];
        if h.iter().all(|b| *b == 0) {
            if p + HEADER != bytes.len() {
                return Err(format!(
                    "segment {id}: end marker at offset {p} is followed by {} bytes",
                    bytes.len() - p - HEADER
                ));
            }
            sentinel = true;
            break;
        }
        let version = u64::from_le_bytes(h[0..8].try_into().unwrap());
        let sum: Hash32 = h[8..40].try_into().unwrap();
        let len = u32::from_le_bytes(h[40..44].try_into().unwrap()) as usize;
        if version == 0 {
            return Err(format!("segment {id}: record at offset {p} has version 0"));
        }
        if len == 0 {
            return Err(format!("segment {id}: record v{version} at offset {p} has empty payload"));
        }
        if bytes.len() - p - HEADER < len {
            return Err(format!(
                "segment {id}: record v{version} at offset {p} is incomplete: payload {len} bytes, only {} present",
                bytes.len() - p - HEADER
            ));
        }
        let payload = &bytes[p + HEADER..p + HEADER + len];
        if *blake3::hash(payload).as_bytes() != sum {
            return Err(format!("segment {id}: record v{version} at offset {p}: checksum mismatch"));
        }
        records.push(Record { version, offset: p, payload: payload.to_vec() });
        p += HEADER + len;
    }
    Ok(Segment { id, records, sentinel, len: bytes.len() })
}

pub fn list_segments(root: &Path) -> Vec<(u64, PathBuf)> {
    let mut v = Vec::new();
    if let Ok(rd) = std::fs::read_dir(root) {
        for e in rd.flatten() {
            let name = e.file_name().to_string_lossy().to_string();
            if let Some(idpart) = name.strip_suffix("_index.wal")
                && let Ok(id) = idpart.parse::<u64>()
                && e.path().is_file()
            {
                v.push((id, e.path()));
            }
        }
    }
    v.sort();
    v
}

#[derive(Clone, Debug, Default, PartialEq)]
pub struct DiskState {
    /// snapshot version (0 = no snapshot file or version 0)
    pub snapshot_version: u64,
    pub has_snapshot: bool,
    /// key bytes -> (hash, size) after snapshot ⊕ log
    pub map: BTreeMap<Vec<u8>, (Hash32, u64)>,
    /// every record in the log: (segment id, version, blake3(payload))
    pub versions: Vec<(u64, u64, Hash32)>,
    pub max_version: u64,
    pub segments: Vec<(u64, usize, bool)>,
}

/// Decode a database directory and check every structural rule of the format.
/// `Err` carries the first rule that is broken.
pub fn decode_db(root: &Path, ops_per_segment: u64) -> Result<DiskState, String> {
    let mut st = DiskState::default();
    match std::fs::read(root.join("index")) {
        Ok(bytes) => {
            let snap = parse_snapshot(&bytes).map_err(|e| format!("index: {e}"))?;
            st.snapshot_version = snap.version;
            st.has_snapshot = true;
            for (k, h, s) in snap.entries {
                st.map.insert(k, (h, s));
            }
        }
        Err(e) if e.kind() == std::io::ErrorKind::NotFound => {}
        Err(e) => return Err(format!("index unreadable: {e}")),
    }
    let mut last_version = 0u64;
    let mut pending: Vec<(u64, DOp)> = Vec::new();
    for (id, path) in list_segments(root) {
        let bytes = std::fs::read(&path).map_err(|e| format!("{}: {e}", path.display()))?;
        let seg = parse_segment(id, &bytes)?;
        st.segments.push((id, bytes.len(), seg.sentinel));
        for r in &seg.records {
            if r.version <= last_version {
                return Err(format!(
                    "segment {id}: version {} does not exceed the previous record's version {last_version}",
                    r.version
                ));
            }
            let lo = id.saturating_mul(ops_per_segment);
            let hi = id.saturating_add(1).saturating_mul(ops_per_segment);
            if !(r.version > lo && r.version <= hi) {
                return Err(format!(
                    "segment {id}: version {} outside the segment's range ({lo}, {hi}]",
                    r.version
                ));
            }
            last_version = r.version;
            st.versions.push((id, r.version, *blake3::hash(&r.payload).as_bytes()));
            let op = parse_op(&r.payload)
                .map_err(|e| format!("segment {id} record v{}: {e}", r.version))?;
            if r.version > st.snapshot_version {
                pending.push((r.version, op));
            }
        }
    }
    for (_, op) in pending {
        match op {
            DOp::Put { key, hash, size } => {
                st.map.insert(key, (hash, size));
            }
            DOp::Remove { keys } => {
                for k in keys {
                    st.map.remove(&k);
                }
            }
        }
    }
    st.max_version = last_version.max(st.snapshot_version);
    Ok(st)
}

impl DiskState {
    /// Acknowledged versions that are neither covered by the snapshot nor present in the log.
    pub fn missing_acked(&self, acked: &std::collections::BTreeSet<u64>) -> Vec<u64> {
        let present: std::collections::BTreeSet<u64> =
            self.versions.iter().map(|(_, v, _)| *v).collect();
        acked
            .iter()
            .copied()
            .filter(|v| *v > self.snapshot_version && !present.contains(v))
            .collect()
    }
}
