//! Parser for fsshim traces, path classification, and the power-loss image builder (C09).

use std::collections::{BTreeMap, BTreeSet};
use std::path::Path;

#[derive(Clone, Debug, PartialEq)]
pub enum EvKind {
    Open { flags: u32, fd: i64, path: String },
    Write { fd: i64, off: i64, len: usize, path: String, data: Vec<u8> },
    Trunc { fd: i64, len: u64, path: String },
    Sync { fd: i64, path: String, data_only: bool },
    Rename { from: String, to: String },
    Unlink { path: String },
    Mkdir { path: String },
    Rmdir { path: String },
    Link { from: String, to: String },
    Close { fd: i64 },
    Flock { fd: i64, op: i64, path: String },
    Killed,
    Other { op: String },
}

#[derive(Clone, Debug, PartialEq)]
pub struct Ev {
    /// call number (0 = not a mutating call)
    pub n: u64,
    pub tid: u64,
    pub ret: i64,
    pub errno: i64,
    pub failed_by_shim: bool,
    pub kind: EvKind,
}

fn kv<'a>(tok: &'a str, key: &str) -> Option<&'a str> {
    tok.strip_prefix(key).and_then(|r| r.strip_prefix('='))
}

pub fn parse_trace(text: &str) -> Vec<Ev> {
    let mut out = Vec::new();
    for line in text.lines() {
        let t: Vec<&str> = line.split(' ').collect();
        if t.len() < 5 {
            continue;
        }
        let (Ok(n), Ok(tid), Ok(ret), Ok(errno)) =
            (t[0].parse::<u64>(), t[1].parse::<u64>(), t[3].parse::<i64>(), t[4].parse::<i64>())
        else {
            continue;
        };
        let failed_by_shim = line.ends_with("FAILED-BY-SHIM");
        let d = &t[5..];
        let kind = match t[2] {
            "open" => {
                let flags = d.first().and_then(|x| kv(x, "flags")).and_then(|x| u32::from_str_radix(x, 16).ok());
                match (flags, d.get(1)) {
                    (Some(flags), Some(p)) => EvKind::Open { flags, fd: ret, path: (*p).to_string() },
                    _ => EvKind::Other { op: "open?".into() },
                }
            }
            "write" => {
                let fd = d.first().and_then(|x| kv(x, "fd")).and_then(|x| x.parse().ok());
                let off = d.get(1).and_then(|x| kv(x, "off")).and_then(|x| x.parse().ok());
                let len = d.get(2).and_then(|x| kv(x, "len")).and_then(|x| x.parse().ok());
                match (fd, off, len, d.get(3)) {
                    (Some(fd), Some(off), Some(len), Some(p)) => {
                        let data = d
                            .get(4)
                            .filter(|h| **h != "-" && **h != "FAILED-BY-SHIM")
                            .and_then(|h| crate::json::unhex(h))
                            .unwrap_or_default();
                        EvKind::Write { fd, off, len, path: (*p).to_string(), data }
                    }
                    _ => EvKind::Other { op: "write?".into() },
                }
            }
            "trunc" => {
                let fd = d.first().and_then(|x| kv(x, "fd")).and_then(|x| x.parse().ok());
                let len = d.get(1).and_then(|x| kv(x, "len")).and_then(|x| x.parse().ok());
                match (fd, len, d.get(2)) {
                    (Some(fd), Some(len), Some(p)) => EvKind::Trunc { fd, len, path: (*p).to_string() },
                    _ => EvKind::Other { op: "trunc?".into() },
                }
            }
            "sync" => {
                let fd = d.first().and_then(|x| kv(x, "fd")).and_then(|x| x.parse().ok());
                let kind = d.get(1).and_then(|x| kv(x, "kind"));
                match (fd, kind, d.get(2)) {
                    (Some(fd), Some(k), Some(p)) => {
                        EvKind::Sync { fd, path: (*p).to_string(), data_only: k == "fdatasync" }
                    }
                    _ => EvKind::Other { op: "sync?".into() },
                }
            }
            "rename" => match (d.first(), d.get(1)) {
                (Some(a), Some(b)) => EvKind::Rename { from: (*a).to_string(), to: (*b).to_string() },
                _ => EvKind::Other { op: "rename?".into() },
            },
            "link" => match (d.first(), d.get(1)) {
                (Some(a), Some(b)) => EvKind::Link { from: (*a).to_string(), to: (*b).to_string() },
                _ => EvKind::Other { op: "link?".into() },
            },
            "unlink" => match d.first() {
                Some(p) => EvKind::Unlink { path: (*p).to_string() },
                None => EvKind::Other { op: "unlink?".into() },
            },
            "mkdir" => match d.first() {
                Some(p) => EvKind::Mkdir { path: (*p).to_string() },
                None => EvKind::Other { op: "mkdir?".into() },
            },
            "rmdir" => match d.first() {
                Some(p) => EvKind::Rmdir { path: (*p).to_string() },
                None => EvKind::Other { op: "rmdir?".into() },
            },
            "close" => match d.first().and_then(|x| kv(x, "fd")).and_then(|x| x.parse().ok()) {
                Some(fd) => EvKind::Close { fd },
                None => EvKind::Other { op: "close?".into() },
            },
            "flock" => {
                let fd = d.first().and_then(|x| kv(x, "fd")).and_then(|x| x.parse().ok());
                let op = d.get(1).and_then(|x| kv(x, "op")).and_then(|x| x.parse().ok());
                match (fd, op, d.get(2)) {
                    (Some(fd), Some(op), Some(p)) => EvKind::Flock { fd, op, path: (*p).to_string() },
                    _ => EvKind::Other { op: "flock?".into() },
                }
            }
            "KILLED" => EvKind::Killed,
            other => EvKind::Other { op: other.to_string() },
        };
        out.push(Ev { n, tid, ret, errno, failed_by_shim, kind });
    }
    out
}

/// Class of a path relative to the database root.
pub fn path_class(root: &str, path: &str) -> &'static str {
    let rel = path.strip_prefix(root).unwrap_or(path).trim_start_matches('/');
    if rel.is_empty() {
        "root"
    } else if rel == "LOCK" {
        "lock"
    } else if rel.starts_with("db_settings") {
        "settings"
    } else if rel == "index" || rel == "index.tmp" {
        "index"
    } else if rel.ends_with("_index.wal") {
        "wal"
    } else if rel == "cas" || rel.starts_with("cas/") {
        "cas"
    } else if rel == "staging" || rel.starts_with("staging/") {
        "staging"
    } else {
        "other"
    }
}

/// "op:class" label of a mutating call, e.g. "write:wal", "rename:staging->cas", "unlink:cas".
pub fn call_label(root: &str, ev: &Ev) -> String {
    match &ev.kind {
        EvKind::Open { path, flags, .. } => {
            let c = path_class(root, path);
            if flags & 0o100 != 0 { format!("open-create:{c}") } else { format!("open-write:{c}") }
        }
        EvKind::Write { path, .. } => format!("write:{}", path_class(root, path)),
        EvKind::Trunc { path, .. } => format!("trunc:{}", path_class(root, path)),
        EvKind::Sync { path, .. } => format!("sync:{}", path_class(root, path)),
        EvKind::Rename { from, to } => {
            format!("rename:{}->{}", path_class(root, from), path_class(root, to))
        }
        EvKind::Link { from, to } => {
            format!("link:{}->{}", path_class(root, from), path_class(root, to))
        }
        EvKind::Unlink { path } => format!("unlink:{}", path_class(root, path)),
        EvKind::Mkdir { path } => format!("mkdir:{}", path_class(root, path)),
        EvKind::Rmdir { path } => format!("rmdir:{}", path_class(root, path)),
        EvKind::Close { .. } => "close".into(),
        EvKind::Flock { .. } => "flock".into(),
        EvKind::Killed => "killed".into(),
        EvKind::Other { op } => format!("other:{op}"),
    }
}

pub fn labels_by_call(root: &str, evs: &[Ev]) -> BTreeMap<u64, String> {
    let mut m = BTreeMap::new();
    for e in evs {
        if e.n > 0 {
            m.insert(e.n, call_label(root, e));
        }
    }
    m
}

// ------------------------------------------------------------------ power-loss simulation

#[derive(Clone, Debug, Default)]
struct Inode {
    durable: Vec<u8>,
    volatile: Vec<u8>,
}

/// File-system state rebuilt from a trace prefix under the loss model of C09: directory
/// operations (create, mkdir, rename, unlink) persist in issue order; file bytes persist only
/// up to the file's last fsync/fdatasync.
#[derive(Clone, Debug, Default)]
pub struct PowerSim {
    dirs: BTreeSet<String>,
    files: BTreeMap<String, usize>,
    inodes: Vec<Inode>,
    fds: BTreeMap<i64, usize>,
}

const O_CREAT: u32 = 0o100;
const O_TRUNC: u32 = 0o1000;

impl PowerSim {
    pub fn new() -> Self {
        Self::default()
    }

    /// Apply events in trace order while their call number is <= cut (non-mutating events are
    /// applied as long as no later-numbered call precedes them in the trace).
    pub fn replay(evs: &[Ev], cut: u64) -> PowerSim {
        let mut s = PowerSim::new();
        for e in evs {
            if e.n > cut {
                break;
            }
            s.apply(e);
        }
        s
    }

    fn apply(&mut self, e: &Ev) {
        if e.ret < 0 || e.failed_by_shim {
            return;
        }
        match &e.kind {
            EvKind::Open { flags, fd, path } => {
                let ino = match self.files.get(path) {
                    Some(i) => Some(*i),
                    None if flags & O_CREAT != 0 => {
                        self.inodes.push(Inode::default());
                        let i = self.inodes.len() - 1;
                        self.files.insert(path.clone(), i);
                        Some(i)
                    }
                    None => None,
                };
                if let Some(i) = ino {
                    if flags & O_TRUNC != 0 {
                        self.inodes[i].volatile.clear();
                    }
                    self.fds.insert(*fd, i);
                }
            }
            EvKind::Write { fd, off, data, .. } => {
                if let Some(i) = self.fds.get(fd).copied() {
                    let v = &mut self.inodes[i].volatile;
                    let off = (*off).max(0) as usize;
                    if v.len() < off + data.len() {
                        v.resize(off + data.len(), 0);
                    }
                    v[off..off + data.len()].copy_from_slice(data);
                }
            }
            EvKind::Trunc { fd, len, .. } => {
                if let Some(i) = self.fds.get(fd).copied() {
                    self.inodes[i].volatile.resize(*len as usize, 0);
                }
            }
            EvKind::Sync { fd, .. } => {
                if let Some(i) = self.fds.get(fd).copied() {
                    self.inodes[i].durable = self.inodes[i].volatile.clone();
                }
            }
            EvKind::Rename { from, to } => {
                if let Some(i) = self.files.remove(from) {
                    self.files.insert(to.clone(), i);
                } else if self.dirs.contains(from) {
                    // directory rename: move the subtree
                    let sub: Vec<String> = self
                        .files
                        .keys()
                        .filter(|p| p.starts_with(&format!("{from}/")))
                        .cloned()
                        .collect();
                    for p in sub {
                        let i = self.files.remove(&p).unwrap();
                        self.files.insert(format!("{to}{}", &p[from.len()..]), i);
                    }
                    self.dirs.remove(from);
                    self.dirs.insert(to.clone());
                }
            }
            EvKind::Link { from, to } => {
                if let Some(i) = self.files.get(from).copied() {
                    self.files.insert(to.clone(), i);
                }
            }
            EvKind::Unlink { path } => {
                self.files.remove(path);
            }
            EvKind::Mkdir { path } => {
                self.dirs.insert(path.clone());
            }
            EvKind::Rmdir { path } => {
                self.dirs.remove(path);
            }
            EvKind::Close { fd } => {
                self.fds.remove(fd);
            }
            _ => {}
        }
    }

    /// Paths of files whose unsynced bytes differ from their synced bytes.
    pub fn dirty_files(&self) -> Vec<String> {
        self.files
            .iter()
            .filter(|(_, i)| self.inodes[**i].durable != self.inodes[**i].volatile)
            .map(|(p, _)| p.clone())
            .collect()
    }

    /// Write the image under `dst_root` (trace paths are re-rooted from `src_root`): files in
    /// `lose` get their synced bytes, all others their written bytes.
    pub fn materialise(
        &self,
        src_root: &str,
        dst_root: &Path,
        lose: &BTreeSet<String>,
    ) -> std::io::Result<()> {
        let re = |p: &str| -> Option<std::path::PathBuf> {
            let rel = p.strip_prefix(src_root)?;
            Some(dst_root.join(rel.trim_start_matches('/')))
        };
        for d in &self.dirs {
            if let Some(p) = re(d) {
                std::fs::create_dir_all(p)?;
            }
        }
        for (path, i) in &self.files {
            let Some(p) = re(path) else { continue };
            if let Some(parent) = p.parent() {
                std::fs::create_dir_all(parent)?;
            }
            let ino = &self.inodes[*i];
            let bytes = if lose.contains(path) { &ino.durable } else { &ino.volatile };
            std::fs::write(p, bytes)?;
        }
        Ok(())
    }
}
