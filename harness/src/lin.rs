//! Per-key linearizability check (Wing–Gong search with memoisation) against a register that
//! holds `Absent` or a value id. A map is linearizable iff every key's sub-history is, so
//! histories are partitioned by key before they get here.
//!
//! Operations may consist of several atomic parts that all lie inside the call interval
//! (`remove` = "observe present, later delete whatever is there"), and may have alternatives
//! (a range removal either found the key absent or removed it).

use std::collections::HashSet;

/// Register content: 0 = absent, otherwise a value id.
pub type Val = u64;
pub const ABSENT: Val = 0;

#[derive(Clone, Debug, PartialEq, Eq)]
pub enum Action {
    Write(Val),
    ExpectEq(Val),
    ExpectPresent,
    /// any state
    Nop,
}

#[derive(Clone, Debug)]
pub struct LEvent {
    pub call: u64,
    pub ret: u64,
    /// alternatives; each is a sequence of atomic parts taken in order
    pub alts: Vec<Vec<Action>>,
    pub desc: String,
}

impl LEvent {
    pub fn single(call: u64, ret: u64, a: Action, desc: String) -> Self {
        LEvent { call, ret, alts: vec![vec![a]], desc }
    }
}

#[derive(Clone, Debug, PartialEq, Eq)]
pub enum LinResult {
    Ok,
    Violation(String),
    Inconclusive,
}

pub fn remove_true(call: u64, ret: u64, desc: String) -> LEvent {
    LEvent { call, ret, alts: vec![vec![Action::ExpectPresent, Action::Write(ABSENT)]], desc }
}

pub fn remove_false(call: u64, ret: u64, desc: String) -> LEvent {
    LEvent::single(call, ret, Action::ExpectEq(ABSENT), desc)
}

/// A range removal as seen by one key in the range: absent at the scan, or present at the scan
/// and whatever is there deleted later within the call.
pub fn remove_maybe(call: u64, ret: u64, desc: String) -> LEvent {
    LEvent {
        call,
        ret,
        alts: vec![
            vec![Action::ExpectEq(ABSENT)],
            vec![Action::ExpectPresent, Action::Write(ABSENT)],
        ],
        desc,
    }
}

struct Search<'a> {
    ev: &'a [LEvent],
    /// for each event e: events f with f.ret < e.call (must be complete before e starts)
    before: Vec<Vec<usize>>,
    seen: HashSet<(Vec<u8>, Val)>,
    steps: u64,
    budget: u64,
    best_done: usize,
    best_state: Val,
}

impl Search<'_> {
    /// prog[e] = 0 not started; otherwise (alt+1) << 4 | parts_done
    fn complete(&self, prog: &[u8], e: usize) -> bool {
        let p = prog[e];
        if p == 0 {
            return false;
        }
        let alt = (p >> 4) as usize - 1;
        (p & 15) as usize == self.ev[e].alts[alt].len()
    }

    fn go(&mut self, prog: &mut Vec<u8>, state: Val) -> Option<bool> {
        self.steps += 1;
        if self.steps > self.budget {
            return None;
        }
        let done = (0..self.ev.len()).filter(|e| self.complete(prog, *e)).count();
        if done == self.ev.len() {
            return Some(true);
        }
        if done > self.best_done {
            self.best_done = done;
            self.best_state = state;
        }
        if !self.seen.insert((prog.clone(), state)) {
            return Some(false);
        }
        for e in 0..self.ev.len() {
            if self.complete(prog, e) {
                continue;
            }
            if !self.before[e].iter().all(|f| self.complete(prog, *f)) {
                continue;
            }
            let p = prog[e];
            let choices: Vec<(usize, usize)> = if p == 0 {
                (0..self.ev[e].alts.len()).map(|a| (a, 0)).collect()
            } else {
                vec![((p >> 4) as usize - 1, (p & 15) as usize)]
            };
            for (alt, part) in choices {
                let action = &self.ev[e].alts[alt][part];
                let next_state = match action {
                    Action::Write(v) => Some(*v),
                    Action::ExpectEq(v) => (state == *v).then_some(state),
                    Action::ExpectPresent => (state != ABSENT).then_some(state),
                    Action::Nop => Some(state),
                };
                let Some(ns) = next_state else { continue };
                prog[e] = (((alt + 1) as u8) << 4) | (part as u8 + 1);
                match self.go(prog, ns) {
                    Some(true) => return Some(true),
                    None => return None,
                    Some(false) => {}
                }
                prog[e] = p;
            }
        }
        Some(false)
    }
}

pub fn check_key(initial: Val, events: &[LEvent], budget: u64) -> LinResult {
    if events.len() > 60 {
        return LinResult::Inconclusive;
    }
    let before: Vec<Vec<usize>> = (0..events.len())
        .map(|e| (0..events.len()).filter(|f| *f != e && events[*f].ret < events[e].call).collect())
        .collect();
    let mut s = Search {
        ev: events,
        before,
        seen: HashSet::new(),
        steps: 0,
        budget,
        best_done: 0,
        best_state: initial,
    };
    let mut prog = vec![0u8; events.len()];
    match s.go(&mut prog, initial) {
        Some(true) => LinResult::Ok,
        None => LinResult::Inconclusive,
        Some(false) => {
            let mut lines: Vec<String> = events
                .iter()
                .map(|e| format!("[{}..{}] {}", e.call, e.ret, e.desc))
                .collect();
            lines.sort();
            LinResult::Violation(format!(
                "no linearization (initial {initial}; longest consistent prefix {} of {} ops): {}",
                s.best_done,
                events.len(),
                lines.join(" | ")
            ))
        }
    }
}

#[cfg(test)]
mod tests {
    use super::*;

    #[test]
    fn simple_ok_and_bad() {
        let w = |c, r, v| LEvent::single(c, r, Action::Write(v), format!("w{v}"));
        let rd = |c, r, v| LEvent::single(c, r, Action::ExpectEq(v), format!("r{v}"));
        assert_eq!(check_key(ABSENT, &[w(1, 2, 5), rd(3, 4, 5)], 1000), LinResult::Ok);
        assert!(matches!(check_key(ABSENT, &[w(1, 2, 5), rd(3, 4, 6)], 1000), LinResult::Violation(_)));
        // overlapping write and read of old value
        assert_eq!(check_key(7, &[w(1, 5, 5), rd(2, 3, 7)], 1000), LinResult::Ok);
        // stale read after write returned
        assert!(matches!(check_key(7, &[w(1, 2, 5), rd(3, 4, 7)], 1000), LinResult::Violation(_)));
        // remove=true two-step: put lands between the presence check and the delete
        let ev = [remove_true(1, 10, "rm".into()), w(2, 3, 9), rd(11, 12, ABSENT)];
        assert_eq!(check_key(4, &ev, 1000), LinResult::Ok);
    }
}
